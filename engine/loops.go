package main

import (
	"fmt"
	"go/token"
	"go/types"
	"strings"

	"golang.org/x/tools/go/ssa"
)

// rootAlloc follows FieldAddr/IndexAddr chains back to a cell Alloc.
func (fr *frame) rootAlloc(v ssa.Value) *ssa.Alloc {
	for i := 0; i < 8; i++ {
		switch x := v.(type) {
		case *ssa.Alloc:
			if fr.cells[x] {
				return x
			}
			return nil
		case *ssa.FieldAddr:
			v = x.X
		case *ssa.IndexAddr:
			v = x.X
		default:
			return nil
		}
	}
	return nil
}

func (fr *frame) analyzeLoop(li *loopInfo) {
	if li.storedLocals != nil {
		return
	}
	vc := fr.vc
	li.storedLocals = map[*ssa.Alloc]bool{}
	li.heapWrites = map[string]bool{}
	li.allocInits = map[string]bool{}
	li.elemBases = map[string][]ssa.Value{}
	addEffect := func(eff *Effect) {
		if eff == nil || eff.Unknown {
			li.havocAll = true
			return
		}
		for k := range eff.Writes {
			vc.ensureHeapSort(k)
			li.heapWrites[k] = true
			li.elemBases[k] = append(li.elemBases[k], nil)
		}
		if eff.Allocs {
			li.allocs = true
		}
	}
	for b := range li.blocks {
		for _, in := range b.Instrs {
			switch in := in.(type) {
			case *ssa.Alloc:
				if fr.cells[in] {
					li.storedLocals[in] = true
				} else {
					li.allocs = true
					fr.allocKeys(in.Type().(*types.Pointer).Elem(), li.allocInits)
				}
			case *ssa.MakeSlice:
				li.allocs = true
				key, _ := vc.elemKey(in.Type().Underlying().(*types.Slice).Elem())
				li.allocInits[key] = true
			case *ssa.MakeMap, *ssa.MakeClosure, *ssa.MakeInterface:
				li.allocs = true
			case *ssa.Convert:
				if isString(in.X.Type()) {
					if sl, ok := in.Type().Underlying().(*types.Slice); ok {
						li.allocs = true
						key, _ := vc.elemKey(sl.Elem())
						li.allocInits[key] = true
					}
				}
			case *ssa.Store:
				if a := fr.rootAlloc(in.Addr); a != nil {
					li.storedLocals[a] = true
					continue
				}
				switch ad := in.Addr.(type) {
				case *ssa.FieldAddr:
					fr.fieldWriteKeys(ad, li)
				case *ssa.IndexAddr:
					switch xt := ad.X.Type().Underlying().(type) {
					case *types.Slice:
						key, _ := vc.elemKey(xt.Elem())
						li.heapWrites[key] = true
						li.elemBases[key] = append(li.elemBases[key], ad.X)
					case *types.Pointer:
						key, _ := vc.elemKey(xt.Elem().Underlying().(*types.Array).Elem())
						li.heapWrites[key] = true
						li.elemBases[key] = append(li.elemBases[key], nil)
					}
				case *ssa.Global:
					key, _ := vc.globalKey(ad)
					li.heapWrites[key] = true
				default:
					// store through a pointer value
					if pt, ok := in.Addr.Type().Underlying().(*types.Pointer); ok {
						fr.allocKeys(pt.Elem(), li.heapWrites)
					}
				}
			case *ssa.Next:
				if in.IsString {
					li.heapWrites[fr.iterKey(in.Iter)] = true
				}
			case *ssa.MapUpdate:
			case ssa.CallInstruction:
				c := in.Common()
				if b, ok := c.Value.(*ssa.Builtin); ok {
					switch b.Name() {
					case "append", "copy":
						if sl, ok := c.Args[0].Type().Underlying().(*types.Slice); ok {
							key, _ := vc.elemKey(sl.Elem())
							li.heapWrites[key] = true
							li.elemBases[key] = append(li.elemBases[key], nil)
							li.allocs = true
						}
					}
					continue
				}
				if c.IsInvoke() {
					if con := vc.eng.IfaceCons[c.Method.FullName()]; con != nil && con.ModGiven {
						fr.modifiesKeys(con, li)
					} else if vc.eng.inModule(c.Method.Pkg()) {
						addEffect(vc.eng.invokeEffects(c.Method))
					} else {
						li.allocs = true
					}
					continue
				}
				callee := c.StaticCallee()
				if callee == nil {
					if impls := vc.eng.fieldCallTargets(c); len(impls) > 0 {
						for _, f := range impls {
							if con := vc.eng.Contracts[f]; con != nil && con.ModGiven {
								fr.modifiesKeys(con, li)
								li.allocs = true
							} else {
								addEffect(vc.eng.Effects[f])
							}
						}
						continue
					}
					li.havocAll = true
					continue
				}
				if con := vc.eng.Contracts[callee]; con != nil && con.ModGiven {
					fr.modifiesKeys(con, li)
					li.allocs = true
					continue
				}
				if callee.Blocks == nil || !vc.eng.inModule(pkgOf(callee)) {
					li.allocs = true
					if externalWritesSlices(callee.String()) {
						for _, a := range c.Args {
							if sl, ok := a.Type().Underlying().(*types.Slice); ok {
								key, _ := vc.elemKey(sl.Elem())
								li.heapWrites[key] = true
								li.elemBases[key] = append(li.elemBases[key], nil)
							}
						}
					}
					continue
				}
				addEffect(vc.eng.Effects[callee])
			}
		}
	}
}

func (fr *frame) allocKeys(et types.Type, into map[string]bool) {
	vc := fr.vc
	switch u := et.Underlying().(type) {
	case *types.Struct:
		for i := 0; i < u.NumFields(); i++ {
			key, _ := vc.fieldKey(et, i)
			into[key] = true
		}
	case *types.Array:
		key, _ := vc.elemKey(u.Elem())
		into[key] = true
	default:
		key, _ := vc.cellKey(et)
		into[key] = true
	}
}

func (fr *frame) fieldWriteKeys(fa *ssa.FieldAddr, li *loopInfo) {
	// innermost struct whose field is written via a real pointer
	vc := fr.vc
	cur := fa
	for {
		if inner, ok := cur.X.(*ssa.FieldAddr); ok {
			cur = inner
			continue
		}
		break
	}
	pt := cur.X.Type().Underlying().(*types.Pointer)
	key, _ := vc.fieldKey(pt.Elem(), cur.Field)
	li.heapWrites[key] = true
}

func (fr *frame) modifiesKeys(con *Contract, li *loopInfo) {
	vc := fr.vc
	// resolve places syntactically by type: x.f -> field key; s[*] -> elem key of s's type
	env := vc.newEnv(&State{guard: TTrue, locals: map[*ssa.Alloc]*Term{}, heap: map[string]*Term{}, base: "probe"}, nil, con.PkgPath)
	for i, n := range con.ParamNames {
		if n != "_" {
			env.vars[n] = &SVal{T: vc.declare("probe!"+n+"!"+vc.sortOf(con.ParamTypes[i]).Key(), vc.sortOf(con.ParamTypes[i])), Go: con.ParamTypes[i]}
		}
	}
	env.old = env.cur
	for _, m := range con.Modifies {
		func() {
			defer func() {
				if r := recover(); r != nil {
					if _, ok := r.(specErr); ok {
						li.havocAll = true
						return
					}
					panic(r)
				}
			}()
			switch m.K {
			case ESelect:
				x := env.materialize(env.tr(m.X), nil)
				p := x.Go.Underlying().(*types.Pointer)
				stt := p.Elem().Underlying().(*types.Struct)
				for i := 0; i < stt.NumFields(); i++ {
					if stt.Field(i).Name() == m.Op {
						key, _ := vc.fieldKey(p.Elem(), i)
						li.heapWrites[key] = true
					}
				}
			case EIndex:
				s := env.materialize(env.tr(m.X), nil)
				sl := s.Go.Underlying().(*types.Slice)
				key, _ := vc.elemKey(sl.Elem())
				li.heapWrites[key] = true
				li.elemBases[key] = append(li.elemBases[key], nil)
			}
		}()
	}
}

// evalInvariant evaluates an SSA value that does not change inside loop li, in state st.
func (fr *frame) evalInvariant(v ssa.Value, li *loopInfo, st *State, depth int) (*Term, bool) {
	vc := fr.vc
	if depth > 6 {
		return nil, false
	}
	switch x := v.(type) {
	case *ssa.Const:
		return vc.constTerm(x), true
	case *ssa.Parameter:
		if val, ok := fr.vals[x]; ok && val.T != nil {
			return val.T, true
		}
		return nil, false
	}
	in, ok := v.(ssa.Instruction)
	if !ok {
		return nil, false
	}
	if !li.blocks[in.Block()] {
		if val, ok := fr.vals[v]; ok && val.T != nil {
			return val.T, true
		}
		return nil, false
	}
	switch x := v.(type) {
	case *ssa.UnOp:
		if x.Op != token.MUL {
			return nil, false
		}
		if a, ok := x.X.(*ssa.Alloc); ok && fr.cells[a] && !li.storedLocals[a] {
			if t := st.locals[a]; t != nil {
				return t, true
			}
			return nil, false
		}
		if fa, ok := x.X.(*ssa.FieldAddr); ok {
			base, ok := fr.evalInvariant(fa.X, li, st, depth+1)
			if !ok {
				return nil, false
			}
			pt := fa.X.Type().Underlying().(*types.Pointer)
			key, _ := vc.fieldKey(pt.Elem(), fa.Field)
			if li.heapWrites[key] || li.havocAll {
				return nil, false
			}
			return Select(vc.heapGet(st, key), base), true
		}
	case *ssa.Call:
		if b, ok := x.Call.Value.(*ssa.Builtin); ok && b.Name() == "len" {
			a, ok := fr.evalInvariant(x.Call.Args[0], li, st, depth+1)
			if !ok {
				return nil, false
			}
			switch x.Call.Args[0].Type().Underlying().(type) {
			case *types.Slice:
				return vc.slLen(a), true
			case *types.Basic:
				return vc.strLen(a), true
			}
		}
	case *ssa.BinOp:
		if !isInteger(x.Type()) {
			return nil, false
		}
		a, ok1 := fr.evalInvariant(x.X, li, st, depth+1)
		b, ok2 := fr.evalInvariant(x.Y, li, st, depth+1)
		if !ok1 || !ok2 {
			return nil, false
		}
		switch x.Op {
		case token.ADD:
			return vc.iAdd(a, b), true
		case token.SUB:
			return vc.iSub(a, b), true
		}
	}
	return nil, false
}

func (fr *frame) loopSpec(li *loopInfo) *LoopSpec {
	if !fr.top || fr.vc.con == nil {
		return nil
	}
	return fr.vc.con.Loops[li.ordinal]
}

func (fr *frame) enterLoop(li *loopInfo, edges []inEdge) *State {
	vc := fr.vc
	pre := vc.mergeEdges(edges)
	li.pre = pre
	fr.analyzeLoop(li)
	li.invs = nil
	spec := fr.loopSpec(li)
	li.spec = spec
	if spec != nil {
		for i, cl := range spec.Invariants {
			cl := cl
			li.invs = append(li.invs, &invInst{name: fmt.Sprintf("loop %d invariant %d (%s:%d): %s", li.ordinal, i, cl.File, cl.Line, cl.Src),
				eval: func(st *State) *Term { return fr.evalLoopClause(li, cl, st) }, pos: loopPos(li.header)})
		}
	}
	li.invs = append(li.invs, fr.autoCandidates(li, pre)...)
	li.invs = append(li.invs, fr.frameCandidates(li)...)
	for _, inv := range li.invs {
		fr.provingInv = true
		t := inv.eval(pre)
		fr.provingInv = false
		if t == nil {
			continue
		}
		if o := vc.oblige("inv-init", pre, t, inv.pos, inv.name); o != nil {
			o.Auto = inv.auto
			o.AutoDesc = inv.name
		}
	}
	// havoc
	st := pre.clone()
	for _, a := range sortedAllocSet(li.storedLocals) {
		et := a.Type().(*types.Pointer).Elem()
		nv := vc.fresh("lv!"+a.Comment, vc.sortOf(et))
		vc.assume(st.guard, vc.typeInv(nv, et, st))
		st.locals[a] = nv
	}
	if li.havocAll {
		vc.havocAll(st)
	} else {
		wm0 := vc.wm(pre)
		if li.allocs {
			vc.bumpWM(st)
		}
		keys := map[string]bool{}
		for k := range li.heapWrites {
			keys[k] = true
		}
		for k := range li.allocInits {
			keys[k] = true
		}
		for _, k := range sortedKeys(keys) {
			if k == "" || vc.heapSorts[k] == nil {
				continue
			}
			H := vc.heapGet(pre, k)
			if !li.heapWrites[k] {
				// only initialisation of fresh objects: existing objects unchanged
				nh := vc.fresh("hv!"+k, vc.heapSorts[k])
				r := Atom("r!fr", SInt)
				vc.assume(st.guard, Forall([]*Term{r}, Implies(App("<=", SBool, r, wm0), Eq(Select(nh, r), Select(H, r))), []*Term{Select(nh, r)}))
				st.heap[k] = nh
				continue
			}
			if strings.HasPrefix(k, "E!") {
				bases := li.elemBases[k]
				okAll := len(bases) > 0
				var bts []*Term
				for _, b := range bases {
					if b == nil {
						okAll = false
						break
					}
					t, ok := fr.evalInvariant(b, li, pre, 0)
					if !ok {
						okAll = false
						break
					}
					bts = append(bts, t)
				}
				if okAll {
					nh := H
					for _, bt := range bts {
						hs := vc.heapSorts[k]
						na := vc.fresh("hv!arr", hs.Elem)
						oldArr := Select(H, vc.slArr(bt))
						// elements outside the slice window keep their values
						kk := Atom("k!w", vc.idxSort())
						lo := vc.slOff(bt)
						hi := vc.iAdd(lo, vc.slLen(bt))
						vc.assume(st.guard, Forall([]*Term{kk}, Implies(Or(vc.iCmp("<", kk, lo, true), vc.iCmp(">=", kk, hi, true)), Eq(Select(na, kk), Select(oldArr, kk))), []*Term{Select(na, kk)}))
						nh = Store(nh, vc.slArr(bt), na)
					}
					if li.allocInits[k] {
						// fresh objects may also have been initialised: havoc above the watermark
						nh2 := vc.fresh("hv!"+k, vc.heapSorts[k])
						r := Atom("r!fr", SInt)
						vc.assume(st.guard, Forall([]*Term{r}, Implies(App("<=", SBool, r, wm0), Eq(Select(nh2, r), Select(nh, r))), []*Term{Select(nh2, r)}))
						nh = nh2
					}
					st.heap[k] = vc.define("h", nh)
					continue
				}
			}
			vc.havocKey(st, k)
		}
	}
	for _, inv := range li.invs {
		t := inv.eval(st)
		if t == nil {
			continue
		}
		vc.flushUnfold()
		vc.assume(st.guard, t)
	}
	if spec != nil {
		// proved lemmas cited at the loop head are assumed for the current values of the loop variables
		for _, u := range spec.Uses {
			env := fr.loopEnv(li, st)
			if u.E.K != ECall || u.E.X.K != EIdent {
				vc.specError(vc.con, u, fmt.Errorf("use needs lemma(args)"))
				continue
			}
			lem := vc.eng.findLemma(vc.pkgPath, u.E.X.Op)
			if lem == nil {
				vc.specError(vc.con, u, fmt.Errorf("unknown lemma %s", u.E.X.Op))
				continue
			}
			t, err := vc.lemmaInstance(lem, env, u.E.Args)
			if err != nil {
				vc.specError(vc.con, u, err)
				continue
			}
			vc.flushUnfold()
			vc.assume(st.guard, t)
			vc.usedLemmas = append(vc.usedLemmas, lem.Name)
		}
	}
	li.dec0 = nil
	if spec != nil && spec.Decreases != nil {
		if d := fr.evalLoopInt(li, spec.Decreases, st); d != nil {
			li.dec0 = vc.define("dec0", d)
		}
	}
	vc.loopsSeen++
	return st
}

func sortedAllocSet(m map[*ssa.Alloc]bool) []*ssa.Alloc {
	mm := map[*ssa.Alloc]*Term{}
	for a := range m {
		mm[a] = nil
	}
	return sortedAllocs(mm)
}

func (fr *frame) closeLoop(li *loopInfo, st *State, from *ssa.BasicBlock) {
	vc := fr.vc
	for _, inv := range li.invs {
		fr.provingInv = true
		t := inv.eval(st)
		fr.provingInv = false
		if t == nil {
			continue
		}
		if o := vc.oblige("inv-pres", st, t, inv.pos, inv.name); o != nil {
			o.Auto = inv.auto
			o.AutoDesc = inv.name
		}
	}
	if li.dec0 != nil && li.spec != nil && li.spec.Decreases != nil {
		if d := fr.evalLoopInt(li, li.spec.Decreases, st); d != nil {
			z := vc.idx(0)
			vc.oblige("dec", st, And(vc.iCmp(">=", li.dec0, z, true), vc.iCmp("<", d, li.dec0, true)), loopPos(li.header),
				fmt.Sprintf("loop %d variant decreases and is bounded below: %s", li.ordinal, li.spec.Decreases.Src))
		}
	}
}

// ---------------------------------------------------------------- user clauses at loop heads

func (fr *frame) loopEnv(li *loopInfo, st *State) *SEnv {
	vc := fr.vc
	env := vc.newEnv(st, vc.entry, vc.pkgPath)
	if vc.con != nil {
		for i, n := range vc.con.ParamNames {
			if n != "_" && i < len(vc.params) {
				env.oldVars[n] = &SVal{T: vc.params[i], Go: vc.con.ParamTypes[i]}
			}
		}
	}
	pos := loopPos(li.header)
	env.local = func(name string, s *State) *SVal { return fr.resolveLocal(name, pos, s) }
	return env
}

func (fr *frame) resolveLocal(name string, pos token.Pos, st *State) *SVal {
	vc := fr.vc
	var cands []*ssa.Alloc
	for _, b := range fr.fn.Blocks {
		for _, in := range b.Instrs {
			if a, ok := in.(*ssa.Alloc); ok && a.Comment == name {
				cands = append(cands, a)
			}
		}
	}
	if len(cands) == 0 {
		if name == "rangepos" {
			// hidden position of the (unique) string range iterator of this function
			var rng ssa.Value
			n := 0
			for _, b := range fr.fn.Blocks {
				for _, in := range b.Instrs {
					if r, ok := in.(*ssa.Range); ok && isString(r.X.Type()) {
						rng = r
						n++
					}
				}
			}
			if n == 1 {
				return &SVal{T: vc.heapGet(st, fr.iterKey(rng)), Go: types.Typ[types.Int]}
			}
		}
		return nil
	}
	pick := cands[0]
	if len(cands) > 1 {
		picked := false
		if pkg := vc.eng.PPkgs[vc.pkgPath]; pkg != nil && pos.IsValid() {
			if sc := pkg.Types.Scope().Innermost(pos); sc != nil {
				if _, obj := sc.LookupParent(name, pos); obj != nil {
					for _, a := range cands {
						if a.Pos() == obj.Pos() {
							pick = a
							picked = true
						}
					}
				}
			}
		}
		if !picked {
			// closest preceding declaration
			for _, a := range cands {
				if a.Pos() <= pos && a.Pos() > pick.Pos() || pick.Pos() > pos {
					pick = a
				}
			}
		}
	}
	et := pick.Type().(*types.Pointer).Elem()
	if fr.cells[pick] {
		t := st.locals[pick]
		if t == nil {
			t = vc.zero(et)
		}
		return &SVal{T: t, Go: et}
	}
	// escaped variable: lives in the heap
	if v, ok := fr.vals[pick]; ok && v.T != nil {
		a := &Addr{Ref: v.T, Root: et, Typ: et}
		switch u := et.Underlying().(type) {
		case *types.Struct:
			a.Kind = AObjStruct
		case *types.Array:
			a.Kind = AObjArray
			a.Key, _ = vc.elemKey(u.Elem())
		default:
			a.Kind = ACell
			a.Key, _ = vc.cellKey(et)
		}
		return &SVal{T: vc.load(st, a), Go: et}
	}
	return nil
}

func (fr *frame) evalLoopClause(li *loopInfo, cl *Clause, st *State) *Term {
	vc := fr.vc
	env := fr.loopEnv(li, st)
	env.proving = fr.provingInv
	t, err := env.trBool(cl.E)
	if err != nil {
		vc.specError(vc.con, cl, err)
		return nil
	}
	return t
}

func (fr *frame) evalLoopInt(li *loopInfo, cl *Clause, st *State) *Term {
	vc := fr.vc
	env := fr.loopEnv(li, st)
	v, err := env.trAny(cl.E)
	if err != nil {
		vc.specError(vc.con, cl, err)
		return nil
	}
	if !isInteger(v.Go) {
		vc.specError(vc.con, cl, fmt.Errorf("decreases expression is not an integer"))
		return nil
	}
	return vc.toIdx(v.T, v.Go)
}

// ---------------------------------------------------------------- automatic invariant candidates (Houdini)

func (fr *frame) autoCandidates(li *loopInfo, pre *State) []*invInst {
	vc := fr.vc
	if vc.noAuto {
		return nil
	}
	var out []*invInst
	add := func(desc string, eval func(st *State) *Term) {
		full := fmt.Sprintf("auto:%s/loop%d:%s", shortFuncName(fr.fn), li.ordinal, desc)
		if vc.disabledAuto[full] {
			return
		}
		vc.nauto++
		out = append(out, &invInst{name: full, eval: eval, auto: vc.nauto, pos: loopPos(li.header)})
	}
	loadOf := func(v ssa.Value) *ssa.Alloc {
		if u, ok := v.(*ssa.UnOp); ok && u.Op == token.MUL {
			if a, ok := u.X.(*ssa.Alloc); ok && fr.cells[a] {
				return a
			}
		}
		return nil
	}
	// x or x+c
	loadPlus := func(v ssa.Value) *ssa.Alloc {
		if a := loadOf(v); a != nil {
			return a
		}
		if b, ok := v.(*ssa.BinOp); ok && (b.Op == token.ADD || b.Op == token.SUB) {
			if _, isC := b.Y.(*ssa.Const); isC {
				return loadOf(b.X)
			}
		}
		return nil
	}
	for _, a := range sortedAllocSet(li.storedLocals) {
		a := a
		et := a.Type().(*types.Pointer).Elem()
		if !isInteger(et) {
			continue
		}
		_, signed, _ := intInfo(et)
		a0 := pre.locals[a]
		if a0 == nil {
			continue
		}
		up, down, other := 0, 0, 0
		for b := range li.blocks {
			for _, in := range b.Instrs {
				if al, ok := in.(*ssa.Alloc); ok && al == a {
					other++
				}
				s, ok := in.(*ssa.Store)
				if !ok || s.Addr != ssa.Value(a) {
					continue
				}
				bo, ok := s.Val.(*ssa.BinOp)
				if !ok {
					other++
					continue
				}
				c, isC := bo.Y.(*ssa.Const)
				if !isC || loadOf(bo.X) != a || c.Value == nil {
					other++
					continue
				}
				cv := c.Int64()
				switch {
				case bo.Op == token.ADD && cv > 0, bo.Op == token.SUB && cv < 0:
					up++
				case bo.Op == token.ADD && cv < 0, bo.Op == token.SUB && cv > 0:
					down++
				default:
					other++
				}
			}
		}
		cur := func(st *State) *Term { return st.locals[a] }
		if other == 0 && up > 0 && down == 0 {
			add(a.Comment+">=init", func(st *State) *Term { return vc.iCmp(">=", cur(st), a0, signed) })
		}
		if other == 0 && down > 0 && up == 0 {
			add(a.Comment+"<=init", func(st *State) *Term { return vc.iCmp("<=", cur(st), a0, signed) })
		}
		// bounds from exit tests
		for b := range li.blocks {
			ifi, ok := b.Instrs[len(b.Instrs)-1].(*ssa.If)
			if !ok {
				continue
			}
			exitsLoop := !li.blocks[b.Succs[0]] || !li.blocks[b.Succs[1]]
			if !exitsLoop {
				continue
			}
			cmp, ok := ifi.Cond.(*ssa.BinOp)
			if !ok {
				continue
			}
			var other ssa.Value
			var op token.Token
			if loadPlus(cmp.X) == a {
				other, op = cmp.Y, cmp.Op
			} else if loadPlus(cmp.Y) == a {
				other = cmp.X
				switch cmp.Op {
				case token.LSS:
					op = token.GTR
				case token.LEQ:
					op = token.GEQ
				case token.GTR:
					op = token.LSS
				case token.GEQ:
					op = token.LEQ
				default:
					op = cmp.Op
				}
			} else {
				continue
			}
			n, ok := fr.evalInvariant(other, li, pre, 0)
			if !ok || !sameSort(n.S, a0.S) {
				continue
			}
			stay := li.blocks[b.Succs[0]] // true branch stays in loop
			if !stay {
				switch op {
				case token.LSS:
					op = token.GEQ
				case token.LEQ:
					op = token.GTR
				case token.GTR:
					op = token.LEQ
				case token.GEQ:
					op = token.LSS
				}
			}
			n = vc.define("bound", n)
			one := vc.intConst(bigOne, et)
			switch op {
			case token.LSS, token.LEQ, token.NEQ:
				add(fmt.Sprintf("%s<=bound@b%d", a.Comment, b.Index), func(st *State) *Term {
					return Or(vc.iCmp("<=", cur(st), n, signed), Eq(cur(st), a0))
				})
				add(fmt.Sprintf("%s<bound@b%d", a.Comment, b.Index), func(st *State) *Term {
					return Or(vc.iCmp("<", cur(st), n, signed), Eq(cur(st), a0))
				})
				add(fmt.Sprintf("%s<=bound+1@b%d", a.Comment, b.Index), func(st *State) *Term {
					return Or(vc.iCmp("<=", cur(st), vc.iAdd(n, one), signed), Eq(cur(st), a0))
				})
			case token.GTR, token.GEQ:
				add(fmt.Sprintf("%s>=bound@b%d", a.Comment, b.Index), func(st *State) *Term {
					return Or(vc.iCmp(">=", cur(st), n, signed), Eq(cur(st), a0))
				})
				add(fmt.Sprintf("%s>=bound-1@b%d", a.Comment, b.Index), func(st *State) *Term {
					return Or(vc.iCmp(">=", cur(st), vc.iSub(n, one), signed), Eq(cur(st), a0))
				})
			}
		}
	}
	return out
}

// frameCandidates: when the function has a modifies clause, "everything outside it still has its entry value"
// is offered as an automatic loop invariant for every heap component the loop may write.
func (fr *frame) frameCandidates(li *loopInfo) []*invInst {
	vc := fr.vc
	if !fr.top || vc.con == nil || !vc.con.ModGiven || vc.noAuto || li.havocAll {
		return nil
	}
	keys := map[string]bool{}
	for k := range li.heapWrites {
		keys[k] = true
	}
	for k := range li.allocInits {
		keys[k] = true
	}
	var out []*invInst
	for _, k := range sortedKeys(keys) {
		k := k
		if vc.heapSorts[k] == nil || strings.HasPrefix(k, "M!") {
			continue
		}
		full := fmt.Sprintf("auto:%s/loop%d:frame(%s)", shortFuncName(fr.fn), li.ordinal, k)
		if vc.disabledAuto[full] {
			continue
		}
		vc.nauto++
		out = append(out, &invInst{name: full, auto: vc.nauto, pos: loopPos(li.header), eval: func(st *State) *Term {
			r := Atom("r!fc", SInt)
			j := Atom("j!fc", vc.idxSort())
			f := vc.frameFormula(k, st, r, j)
			if f == nil {
				return TTrue
			}
			if strings.HasPrefix(k, "E!") {
				return Forall([]*Term{r, j}, f)
			}
			if strings.HasPrefix(k, "G!") {
				return f
			}
			return Forall([]*Term{r}, f)
		}})
	}
	return out
}
