package main

import (
	"bufio"
	"encoding/json"
	"fmt"
	"go/types"
	"io"
	"math/big"
	"os"
	"os/exec"
	"path/filepath"
	"strconv"
	"strings"
	"time"
)

// ---------------------------------------------------------------- interactive solver session

type session struct {
	cmd *exec.Cmd
	in  io.WriteCloser
	out *bufio.Reader
}

func startSession(bin string, timeoutMs int) (*session, error) {
	cmd := exec.Command(bin, "-in", "-smt2", fmt.Sprintf("-t:%d", timeoutMs))
	in, err := cmd.StdinPipe()
	if err != nil {
		return nil, err
	}
	out, err := cmd.StdoutPipe()
	if err != nil {
		return nil, err
	}
	cmd.Stderr = cmd.Stdout
	if err := cmd.Start(); err != nil {
		return nil, err
	}
	return &session{cmd: cmd, in: in, out: bufio.NewReader(out)}, nil
}

func (s *session) close() {
	s.in.Close()
	done := make(chan struct{})
	go func() { s.cmd.Wait(); close(done) }()
	select {
	case <-done:
	case <-time.After(2 * time.Second):
		s.cmd.Process.Kill()
	}
}

func (s *session) send(text string) { io.WriteString(s.in, text+"\n") }

func (s *session) readLine(timeout time.Duration) (string, bool) {
	type res struct {
		s   string
		err error
	}
	ch := make(chan res, 1)
	go func() {
		l, err := s.out.ReadString('\n')
		ch <- res{l, err}
	}()
	select {
	case r := <-ch:
		if r.err != nil && r.s == "" {
			return "", false
		}
		return strings.TrimSpace(r.s), true
	case <-time.After(timeout):
		return "", false
	}
}

// readSexp reads one balanced s-expression (possibly spanning lines).
func (s *session) readSexp(timeout time.Duration) (string, bool) {
	var sb strings.Builder
	depth := 0
	started := false
	deadline := time.Now().Add(timeout)
	for time.Now().Before(deadline) {
		l, ok := s.readLine(time.Until(deadline))
		if !ok {
			return sb.String(), false
		}
		sb.WriteString(l)
		sb.WriteByte(' ')
		for _, c := range l {
			if c == '(' {
				depth++
				started = true
			} else if c == ')' {
				depth--
			}
		}
		if started && depth <= 0 {
			return sb.String(), true
		}
		if !started && l != "" {
			return sb.String(), true
		}
	}
	return sb.String(), false
}

// ---------------------------------------------------------------- s-expression values

type sx struct {
	atom string
	list []*sx
}

func parseSx(s string) *sx {
	toks := []string{}
	i := 0
	for i < len(s) {
		c := s[i]
		switch {
		case c == '(' || c == ')':
			toks = append(toks, string(c))
			i++
		case c == ' ' || c == '\n' || c == '\t':
			i++
		case c == '|':
			j := strings.IndexByte(s[i+1:], '|')
			if j < 0 {
				j = len(s) - i - 2
			}
			toks = append(toks, s[i:i+j+2])
			i += j + 2
		default:
			j := i
			for j < len(s) && !strings.ContainsRune("() \n\t", rune(s[j])) {
				j++
			}
			toks = append(toks, s[i:j])
			i = j
		}
	}
	p := 0
	var rec func() *sx
	rec = func() *sx {
		if p >= len(toks) {
			return &sx{}
		}
		t := toks[p]
		p++
		if t == "(" {
			n := &sx{list: []*sx{}}
			for p < len(toks) && toks[p] != ")" {
				n.list = append(n.list, rec())
			}
			p++
			return n
		}
		return &sx{atom: t}
	}
	return rec()
}

// ratOf converts an SMT numeral value to a rational.
func ratOf(v *sx) (*big.Rat, bool) {
	if v.list == nil {
		a := v.atom
		if strings.HasPrefix(a, "#x") {
			n, ok := new(big.Int).SetString(a[2:], 16)
			if !ok {
				return nil, false
			}
			return new(big.Rat).SetInt(n), true
		}
		if strings.HasPrefix(a, "#b") {
			n, ok := new(big.Int).SetString(a[2:], 2)
			if !ok {
				return nil, false
			}
			return new(big.Rat).SetInt(n), true
		}
		a = strings.TrimSuffix(a, "?")
		r, ok := new(big.Rat).SetString(a)
		return r, ok
	}
	if len(v.list) == 2 && v.list[0].atom == "-" {
		r, ok := ratOf(v.list[1])
		if !ok {
			return nil, false
		}
		return r.Neg(r), true
	}
	if len(v.list) == 3 && v.list[0].atom == "/" {
		a, ok1 := ratOf(v.list[1])
		b, ok2 := ratOf(v.list[2])
		if !ok1 || !ok2 || b.Sign() == 0 {
			return nil, false
		}
		return a.Quo(a, b), true
	}
	if len(v.list) == 3 && v.list[0].atom == "_" && strings.HasPrefix(v.list[1].atom, "bv") {
		n, ok := new(big.Int).SetString(v.list[1].atom[2:], 10)
		if !ok {
			return nil, false
		}
		return new(big.Rat).SetInt(n), true
	}
	return nil, false
}

// ---------------------------------------------------------------- replay plan

type replayCtx struct {
	vc      *VC
	sess    *session
	pkg     *types.Package
	code    []string // Go statements building the inputs
	nvar    int
	refs    map[string]string // "<typekey>:<ref>" -> variable
	obs     []obsPoint
	imports map[string]string
	fail    string
	budget  int
}

type obsPoint struct {
	Expr      string `json:"expr"`
	Predicted string `json:"predicted"`
	Kind      string `json:"kind"`
}

func (rc *replayCtx) getValues(terms []*Term) ([]*sx, bool) {
	if len(terms) == 0 {
		return nil, true
	}
	var ss []string
	for _, t := range terms {
		ss = append(ss, t.String())
	}
	rc.sess.send("(get-value (" + strings.Join(ss, " ") + "))")
	resp, ok := rc.sess.readSexp(20 * time.Second)
	if !ok || strings.Contains(resp, "(error") {
		rc.fail = "get-value failed: " + resp
		return nil, false
	}
	root := parseSx(resp)
	if len(root.list) != len(terms) {
		rc.fail = "get-value: unexpected response " + resp
		return nil, false
	}
	out := make([]*sx, len(terms))
	for i, pr := range root.list {
		if len(pr.list) < 2 {
			rc.fail = "get-value: malformed pair"
			return nil, false
		}
		out[i] = pr.list[len(pr.list)-1]
	}
	return out, true
}

func (rc *replayCtx) getInt(t *Term) (*big.Int, bool) {
	vs, ok := rc.getValues([]*Term{t})
	if !ok {
		return nil, false
	}
	r, ok := ratOf(vs[0])
	if !ok || !r.IsInt() {
		rc.fail = "non-integer model value for " + t.String()
		return nil, false
	}
	return r.Num(), true
}

func (rc *replayCtx) typeName(t types.Type) string {
	return types.TypeString(t, func(p *types.Package) string {
		if p == rc.pkg {
			return ""
		}
		rc.imports[p.Path()] = p.Name()
		return p.Name()
	})
}

func signedVal(v *big.Int, t types.Type) *big.Int {
	w, signed, ok := intInfo(t)
	if !ok || !signed {
		return v
	}
	if v.Cmp(pow2(w-1)) >= 0 {
		return new(big.Int).Sub(v, pow2(w))
	}
	return v
}

// goValue renders the Go expression for the model value of term t (of Go type typ) in state st.
func (rc *replayCtx) goValue(t *Term, typ types.Type, st *State, depth int) (string, bool) {
	vc := rc.vc
	rc.budget--
	if rc.budget < 0 || depth > 6 {
		rc.fail = "model too large to replay"
		return "", false
	}
	switch u := typ.Underlying().(type) {
	case *types.Basic:
		switch {
		case isInteger(typ):
			v, ok := rc.getInt(t)
			if !ok {
				return "", false
			}
			if vc.isBV() {
				v = signedVal(v, typ)
			}
			return fmt.Sprintf("%s(%s)", rc.typeName(typ), v.String()), true
		case isFloat(typ):
			vs, ok := rc.getValues([]*Term{t})
			if !ok {
				return "", false
			}
			r, ok := ratOf(vs[0])
			if !ok {
				rc.fail = "bad real value"
				return "", false
			}
			if inf := vc.declSeen["fp.inf"]; inf {
				iv, ok2 := rc.getValues([]*Term{Atom("fp.inf", SReal)})
				if ok2 {
					if ir, ok3 := ratOf(iv[0]); ok3 && ir.Cmp(r) == 0 {
						rc.imports["math"] = "math"
						return "math.Inf(1)", true
					}
				}
			}
			return fmt.Sprintf("%s(%s.0)/%s(%s.0)", rc.typeName(typ), r.Num().String(), rc.typeName(typ), r.Denom().String()), true
		case isBool(typ):
			vs, ok := rc.getValues([]*Term{t})
			if !ok {
				return "", false
			}
			return vs[0].atom, true
		case isString(typ):
			n, ok := rc.getInt(vc.strLen(t))
			if !ok {
				return "", false
			}
			if n.Sign() < 0 || n.Int64() > 4096 {
				rc.fail = "string too long to replay"
				return "", false
			}
			var ts []*Term
			for k := int64(0); k < n.Int64(); k++ {
				ts = append(ts, vc.strAt(t, vc.idx(k)))
			}
			vs, ok := rc.getValues(ts)
			if !ok {
				return "", false
			}
			bs := make([]byte, len(vs))
			for i, v := range vs {
				r, _ := ratOf(v)
				if r != nil {
					bs[i] = byte(r.Num().Int64())
				}
			}
			return strconv.Quote(string(bs)), true
		}
	case *types.Slice:
		a, ok := rc.getInt(vc.slArr(t))
		if !ok {
			return "", false
		}
		if a.Sign() == 0 {
			return fmt.Sprintf("%s(nil)", rc.typeName(typ)), true
		}
		n, ok := rc.getInt(vc.slLen(t))
		if !ok {
			return "", false
		}
		if n.Int64() > 4096 || n.Sign() < 0 {
			rc.fail = "slice too long to replay"
			return "", false
		}
		key, _ := vc.elemKey(u.Elem())
		arr := Select(vc.heapGet(st, key), vc.slArr(t))
		var elems []string
		for k := int64(0); k < n.Int64(); k++ {
			ev, ok := rc.goValue(Select(arr, vc.iAdd(vc.slOff(t), vc.idx(k))), u.Elem(), st, depth+1)
			if !ok {
				return "", false
			}
			elems = append(elems, ev)
		}
		return fmt.Sprintf("%s{%s}", rc.typeName(typ), strings.Join(elems, ", ")), true
	case *types.Pointer:
		r, ok := rc.getInt(t)
		if !ok {
			return "", false
		}
		if r.Sign() == 0 {
			return fmt.Sprintf("(%s)(nil)", rc.typeName(typ)), true
		}
		rk := typeKey(typ) + ":" + r.String()
		if v, ok := rc.refs[rk]; ok {
			return v, true
		}
		stt, ok := u.Elem().Underlying().(*types.Struct)
		if !ok {
			rc.fail = "pointer to non-struct not replayable"
			return "", false
		}
		rc.nvar++
		name := fmt.Sprintf("obj%d", rc.nvar)
		rc.refs[rk] = name
		rc.code = append(rc.code, fmt.Sprintf("%s := new(%s)", name, rc.typeName(u.Elem())))
		for i := 0; i < stt.NumFields(); i++ {
			key, _ := vc.fieldKey(u.Elem(), i)
			fv, ok := rc.goValue(Select(vc.heapGet(st, key), t), stt.Field(i).Type(), st, depth+1)
			if !ok {
				return "", false
			}
			rc.code = append(rc.code, fmt.Sprintf("zzSet(%s, %q, %s)", name, stt.Field(i).Name(), fv))
		}
		return name, true
	case *types.Map:
		return fmt.Sprintf("%s(nil)", rc.typeName(typ)), true
	case *types.Interface:
		tag, ok := rc.getInt(vc.ifTag(t))
		if !ok {
			return "", false
		}
		if tag.Sign() == 0 {
			return fmt.Sprintf("%s(nil)", rc.typeName(typ)), true
		}
		rc.fail = "non-nil interface input not replayable"
		return "", false
	case *types.Struct:
		var fs []string
		s := vc.sortOf(typ)
		for i := 0; i < u.NumFields(); i++ {
			fv, ok := rc.goValue(vc.structField(&Term{Op: t.Op, Args: t.Args, S: s}, i), u.Field(i).Type(), st, depth+1)
			if !ok {
				return "", false
			}
			fs = append(fs, fmt.Sprintf("%s: %s", u.Field(i).Name(), fv))
		}
		return fmt.Sprintf("%s{%s}", rc.typeName(typ), strings.Join(fs, ", ")), true
	case *types.Array:
		if u.Len() > 256 {
			rc.fail = "array too long"
			return "", false
		}
		var es []string
		for k := int64(0); k < u.Len(); k++ {
			ev, ok := rc.goValue(Select(t, vc.idx(k)), u.Elem(), st, depth+1)
			if !ok {
				return "", false
			}
			es = append(es, ev)
		}
		return fmt.Sprintf("%s{%s}", rc.typeName(typ), strings.Join(es, ", ")), true
	}
	rc.fail = "type not replayable: " + typ.String()
	return "", false
}

// observe records predicted final values reachable from (goExpr, term) in state st.
func (rc *replayCtx) observe(goExpr string, t *Term, typ types.Type, st *State, depth int) {
	vc := rc.vc
	rc.budget--
	if rc.budget < 0 || depth > 4 || rc.fail != "" {
		return
	}
	switch u := typ.Underlying().(type) {
	case *types.Basic:
		vs, ok := rc.getValues([]*Term{t})
		if !ok {
			rc.fail = ""
			return
		}
		switch {
		case isInteger(typ):
			r, ok := ratOf(vs[0])
			if ok {
				v := r.Num()
				if vc.isBV() {
					v = signedVal(v, typ)
				}
				rc.obs = append(rc.obs, obsPoint{goExpr, v.String(), "int"})
			}
		case isFloat(typ):
			r, ok := ratOf(vs[0])
			if ok {
				if vc.declSeen["fp.inf"] {
					if iv, ok2 := rc.getValues([]*Term{Atom("fp.inf", SReal)}); ok2 {
						if ir, ok3 := ratOf(iv[0]); ok3 && ir.Cmp(r) == 0 {
							rc.obs = append(rc.obs, obsPoint{goExpr, "+Inf", "float"})
							return
						}
					}
				}
				f, _ := r.Float64()
				rc.obs = append(rc.obs, obsPoint{goExpr, strconv.FormatFloat(f, 'g', 17, 64), "float"})
			}
		case isBool(typ):
			rc.obs = append(rc.obs, obsPoint{goExpr, vs[0].atom, "bool"})
		}
	case *types.Slice:
		n, ok := rc.getInt(vc.slLen(t))
		if !ok {
			rc.fail = ""
			return
		}
		a, _ := rc.getInt(vc.slArr(t))
		if a != nil && a.Sign() == 0 {
			rc.obs = append(rc.obs, obsPoint{"len(" + goExpr + ")", "0", "int"})
			return
		}
		rc.obs = append(rc.obs, obsPoint{"len(" + goExpr + ")", n.String(), "int"})
		if n.Int64() > 512 {
			return
		}
		key, _ := vc.elemKey(u.Elem())
		arr := Select(vc.heapGet(st, key), vc.slArr(t))
		for k := int64(0); k < n.Int64(); k++ {
			rc.observe(fmt.Sprintf("%s[%d]", goExpr, k), Select(arr, vc.iAdd(vc.slOff(t), vc.idx(k))), u.Elem(), st, depth+1)
		}
	case *types.Pointer:
		r, ok := rc.getInt(t)
		if !ok {
			rc.fail = ""
			return
		}
		if r.Sign() == 0 {
			rc.obs = append(rc.obs, obsPoint{goExpr + " == nil", "true", "bool"})
			return
		}
		rc.obs = append(rc.obs, obsPoint{goExpr + " == nil", "false", "bool"})
		stt, ok := u.Elem().Underlying().(*types.Struct)
		if !ok {
			return
		}
		for i := 0; i < stt.NumFields(); i++ {
			ft := stt.Field(i).Type()
			switch ft.Underlying().(type) {
			case *types.Basic, *types.Slice:
				key, _ := vc.fieldKey(u.Elem(), i)
				ge := fmt.Sprintf("zzGet(%s, %q).(%s)", goExpr, stt.Field(i).Name(), rc.typeName(ft))
				rc.observe(ge, Select(vc.heapGet(st, key), t), ft, st, depth+1)
			}
		}
	case *types.Interface:
		tag, ok := rc.getInt(vc.ifTag(t))
		if !ok {
			rc.fail = ""
			return
		}
		if tag.Sign() == 0 {
			rc.obs = append(rc.obs, obsPoint{goExpr + " == nil", "true", "bool"})
		} else {
			rc.obs = append(rc.obs, obsPoint{goExpr + " == nil", "false", "bool"})
		}
	}
}

// ---------------------------------------------------------------- replay driver

type ReplayFile struct {
	Property   string     `json:"property"`
	Obligation string     `json:"obligation"`
	Kind       string     `json:"kind"`
	Desc       string     `json:"description"`
	Function   string     `json:"function"`
	Position   string     `json:"position"`
	Status     string     `json:"solver_status"`
	Solver     string     `json:"solver"`
	SolverOut  string     `json:"solver_output"`
	Reproduced bool       `json:"reproduced_on_real_code"`
	Note       string     `json:"note"`
	Package    string     `json:"package"`
	TestName   string     `json:"test_name"`
	TestSource string     `json:"test_source"`
	Inputs     []string   `json:"inputs"`
	Predicted  []obsPoint `json:"predicted"`
	Observed   string     `json:"observed_output"`
	Excused    string     `json:"known_finding,omitempty"`
}

const replayHelpers = `
func zzField(p interface{}, name string) reflect.Value {
	f := reflect.ValueOf(p).Elem().FieldByName(name)
	return reflect.NewAt(f.Type(), unsafe.Pointer(f.UnsafeAddr())).Elem()
}
func zzSet(p interface{}, name string, v interface{}) {
	f := zzField(p, name)
	if v == nil {
		f.Set(reflect.Zero(f.Type()))
		return
	}
	f.Set(reflect.ValueOf(v).Convert(f.Type()))
}
func zzGet(p interface{}, name string) interface{} { return zzField(p, name).Interface() }
`

// buildReplay extracts a model for obligation o and renders an in-package test. It returns the replay record.
func buildReplay(vc *VC, o *Obl, prop string) *ReplayFile {
	rf := &ReplayFile{Property: prop, Obligation: o.Name, Kind: o.Kind, Desc: o.Desc, Function: vc.funcName(), Status: o.Status, Solver: o.Solver, SolverOut: o.Output}
	if o.Pos.IsValid() {
		p := vc.eng.Fset.Position(o.Pos)
		rf.Position = fmt.Sprintf("%s:%d", strings.TrimPrefix(p.Filename, vc.eng.RepoDir+"/"), p.Line)
	}
	if vc.fn == nil || o.Status != "sat" {
		rf.Note = "no model available (status " + o.Status + ")"
		return rf
	}
	if vc.fn.Pkg == nil {
		rf.Note = "function has no package"
		return rf
	}
	bin := "z3-new"
	if strings.HasPrefix(o.Solver, "z3-4.8") {
		bin = "z3"
	}
	// prefer small models: bound the lengths of input slices/strings, relaxing step by step. Each attempt is a
	// fresh, non-incremental solver run (incremental mode is much weaker on quantified problems).
	var sess *session
	var rc *replayCtx
	last := ""
	for _, bound := range []int64{4, 40, 400, -1} {
		tmo := 5000
		if bound < 0 {
			tmo = 30000
		}
		s2, err := startSession(bin, tmo)
		if err != nil {
			rf.Note = "cannot start solver session: " + err.Error()
			return rf
		}
		rc = &replayCtx{vc: vc, sess: s2, pkg: vc.fn.Pkg.Pkg, refs: map[string]string{}, imports: map[string]string{}, budget: 3000}
		rc.predeclare()
		script := vc.singleScript(o, nil)
		script = strings.Replace(script, "(check-sat)\n", "", 1)
		s2.send(script)
		if bound > 0 {
			for _, c := range rc.sizeBounds(bound) {
				s2.send("(assert " + c.String() + ")")
			}
		}
		s2.send("(check-sat)")
		line, ok := s2.readLine(time.Duration(tmo+10000) * time.Millisecond)
		for ok && line != "sat" && line != "unsat" && line != "unknown" && line != "timeout" && !strings.HasPrefix(line, "(error") {
			line, ok = s2.readLine(time.Duration(tmo+10000) * time.Millisecond)
		}
		last = line
		if ok && line == "sat" {
			sess = s2
			break
		}
		s2.close()
	}
	if sess == nil {
		rf.Note = "model session did not reproduce sat: " + last
		return rf
	}
	defer sess.close()
	// inputs
	var argExprs []string
	fn := vc.fn
	for i, p := range fn.Params {
		ge, ok := rc.goValue(vc.params[i], p.Type(), vc.entry, 0)
		if !ok {
			rf.Note = "cannot build input " + p.Name() + ": " + rc.fail
			return rf
		}
		rc.nvar++
		v := fmt.Sprintf("arg%d", i)
		rc.code = append(rc.code, fmt.Sprintf("%s := %s", v, ge))
		rf.Inputs = append(rf.Inputs, fmt.Sprintf("%s = %s", p.Name(), ge))
		argExprs = append(argExprs, v)
	}
	// call expression
	var call string
	sig := fn.Signature
	if sig.Recv() != nil {
		call = fmt.Sprintf("%s.%s(%s)", argExprs[0], fn.Name(), strings.Join(argExprs[1:], ", "))
	} else {
		call = fmt.Sprintf("%s(%s)", fn.Name(), strings.Join(argExprs, ", "))
	}
	if sig.Variadic() {
		call = strings.TrimSuffix(call, ")") + "...)"
	}
	var resNames []string
	for i := 0; i < sig.Results().Len(); i++ {
		resNames = append(resNames, fmt.Sprintf("res%d", i))
	}
	// predicted outputs (post obligations carry the return state)
	if o.RetSt != nil {
		for i, rt := range o.RetVals {
			if i < sig.Results().Len() {
				rc.observe(resNames[i], rt, sig.Results().At(i).Type(), o.RetSt, 0)
			}
		}
		for i, p := range fn.Params {
			switch p.Type().Underlying().(type) {
			case *types.Pointer, *types.Slice:
				rc.observe(argExprs[i], vc.params[i], p.Type(), o.RetSt, 0)
			}
		}
	}
	rf.Predicted = rc.obs
	// render test
	var sb strings.Builder
	fmt.Fprintf(&sb, "package %s\n\nimport (\n\t\"fmt\"\n\t\"reflect\"\n\t\"testing\"\n\t\"unsafe\"\n", rc.pkg.Name())
	for path, name := range rc.imports {
		if path == rc.pkg.Path() {
			continue
		}
		fmt.Fprintf(&sb, "\t%s %q\n", name, path)
	}
	sb.WriteString(")\n\nvar _ = reflect.ValueOf\nvar _ unsafe.Pointer\n")
	sb.WriteString(replayHelpers)
	sb.WriteString("\nfunc TestZZGovcReplay(t *testing.T) {\n")
	sb.WriteString("\tdefer func() {\n\t\tif r := recover(); r != nil {\n\t\t\tfmt.Printf(\"REPLAY-PANIC: %v\\n\", r)\n\t\t}\n\t}()\n")
	for _, c := range rc.code {
		sb.WriteString("\t" + c + "\n")
	}
	if len(resNames) > 0 {
		fmt.Fprintf(&sb, "\t%s := %s\n", strings.Join(resNames, ", "), call)
		for _, r := range resNames {
			fmt.Fprintf(&sb, "\t_ = %s\n", r)
		}
	} else {
		fmt.Fprintf(&sb, "\t%s\n", call)
	}
	sb.WriteString("\tfmt.Println(\"REPLAY-RETURNED\")\n")
	for i, ob := range rc.obs {
		fmt.Fprintf(&sb, "\tfunc() { defer func() { if r := recover(); r != nil { fmt.Printf(\"OBS %d !panic\\n\") } }(); fmt.Printf(\"OBS %d %%v\\n\", %s) }()\n", i, i, ob.Expr)
	}
	sb.WriteString("}\n")
	rf.Package = rc.pkg.Path()
	rf.TestName = "TestZZGovcReplay"
	rf.TestSource = sb.String()
	return rf
}

func (rc *replayCtx) predeclare() {
	vc := rc.vc
	seen := map[string]bool{}
	var walk func(t types.Type, d int)
	walk = func(t types.Type, d int) {
		if d > 6 || seen[t.String()] {
			return
		}
		seen[t.String()] = true
		switch u := t.Underlying().(type) {
		case *types.Slice:
			key, _ := vc.elemKey(u.Elem())
			vc.heapGet(vc.entry, key)
			walk(u.Elem(), d+1)
		case *types.Pointer:
			if stt, ok := u.Elem().Underlying().(*types.Struct); ok {
				for i := 0; i < stt.NumFields(); i++ {
					key, _ := vc.fieldKey(u.Elem(), i)
					vc.heapGet(vc.entry, key)
					walk(stt.Field(i).Type(), d+1)
				}
			}
		case *types.Struct:
			for i := 0; i < u.NumFields(); i++ {
				walk(u.Field(i).Type(), d+1)
			}
		case *types.Array:
			walk(u.Elem(), d+1)
		case *types.Basic:
			if isString(t) {
				vc.needStr()
			}
		}
	}
	for _, p := range vc.fn.Params {
		walk(p.Type(), 0)
	}
	for i := 0; i < vc.fn.Signature.Results().Len(); i++ {
		walk(vc.fn.Signature.Results().At(i).Type(), 0)
	}
}

// runReplay executes the generated test against the real code via an overlay and compares observations.
func runReplay(eng *Engine, rf *ReplayFile, scratch string) {
	if rf.TestSource == "" {
		return
	}
	os.MkdirAll(scratch, 0o755)
	pkgDir := ""
	if p := eng.PPkgs[rf.Package]; p != nil && len(p.GoFiles) > 0 {
		pkgDir = filepath.Dir(p.GoFiles[0])
	}
	if pkgDir == "" {
		rf.Note = "package directory not found"
		return
	}
	testFile := filepath.Join(scratch, "zz_govc_replay_test.go")
	os.WriteFile(testFile, []byte(rf.TestSource), 0o644)
	ov := map[string]map[string]string{"Replace": {filepath.Join(pkgDir, "zz_govc_replay_test.go"): testFile}}
	ovb, _ := json.Marshal(ov)
	ovFile := filepath.Join(scratch, "overlay.json")
	os.WriteFile(ovFile, ovb, 0o644)
	cmd := exec.Command("bash", "-c", fmt.Sprintf("ulimit -v 8000000; cd %q && go test -overlay %q -vet=off -count=1 -timeout 60s -run '^TestZZGovcReplay$' -v . 2>&1", pkgDir, ovFile))
	cmd.Env = append(os.Environ(), "GOFLAGS=-mod=mod", "GOPROXY=off", "GOSUMDB=off", "GOTOOLCHAIN=local")
	out, _ := cmd.CombinedOutput()
	rf.Observed = string(out)
	if len(rf.Observed) > 6000 {
		rf.Observed = rf.Observed[:6000]
	}
	panicked := strings.Contains(rf.Observed, "REPLAY-PANIC:") || strings.Contains(rf.Observed, "panic:")
	returned := strings.Contains(rf.Observed, "REPLAY-RETURNED")
	switch {
	case strings.HasPrefix(rf.Kind, "safety"):
		if panicked {
			rf.Reproduced = true
			rf.Note = "real code panics on the model input"
		} else if returned {
			rf.Note = "real code returned normally on the model input (counterexample spurious or contract of a callee too weak)"
		} else {
			rf.Note = "replay test did not run to completion"
		}
	default:
		if panicked && !returned {
			rf.Note = "real code panicked before returning"
			return
		}
		if !returned {
			rf.Note = "replay test did not run to completion"
			return
		}
		obs := map[int]string{}
		for _, l := range strings.Split(rf.Observed, "\n") {
			l = strings.TrimSpace(l)
			if strings.HasPrefix(l, "OBS ") {
				parts := strings.SplitN(l, " ", 3)
				if len(parts) == 3 {
					if i, err := strconv.Atoi(parts[1]); err == nil {
						obs[i] = parts[2]
					}
				}
			}
		}
		if len(rf.Predicted) == 0 {
			rf.Note = "no predicted observations to compare"
			return
		}
		mismatch := ""
		for i, p := range rf.Predicted {
			got, ok := obs[i]
			if !ok {
				mismatch = fmt.Sprintf("observation %d (%s) missing", i, p.Expr)
				break
			}
			if !obsEqual(p, got) {
				mismatch = fmt.Sprintf("%s: model predicts %s, real code gives %s", p.Expr, p.Predicted, got)
				break
			}
		}
		if mismatch == "" {
			rf.Reproduced = true
			rf.Note = fmt.Sprintf("real code produces exactly the outputs of the counterexample (%d observation points), which violate the obligation", len(rf.Predicted))
		} else {
			rf.Note = "model not reproduced: " + mismatch
		}
	}
}

func obsEqual(p obsPoint, got string) bool {
	switch p.Kind {
	case "float":
		if p.Predicted == "+Inf" {
			return got == "+Inf"
		}
		a, e1 := strconv.ParseFloat(p.Predicted, 64)
		b, e2 := strconv.ParseFloat(got, 64)
		if e1 != nil || e2 != nil {
			return false
		}
		d := a - b
		if d < 0 {
			d = -d
		}
		m := a
		if m < 0 {
			m = -m
		}
		return d <= 1e-9*(1+m)
	default:
		return p.Predicted == got
	}
}

// sizeBounds: constraints keeping the input's slices and strings short (for readable, replayable models).
func (rc *replayCtx) sizeBounds(n int64) []*Term {
	vc := rc.vc
	var out []*Term
	lim := vc.idx(n)
	var walk func(t *Term, typ types.Type, d int)
	walk = func(t *Term, typ types.Type, d int) {
		if d > 2 {
			return
		}
		switch u := typ.Underlying().(type) {
		case *types.Slice:
			out = append(out, vc.iCmp("<=", vc.slLen(t), lim, true))
		case *types.Basic:
			if isString(typ) {
				out = append(out, vc.iCmp("<=", vc.strLen(t), lim, true))
			}
		case *types.Pointer:
			if stt, ok := u.Elem().Underlying().(*types.Struct); ok {
				for i := 0; i < stt.NumFields(); i++ {
					key, _ := vc.fieldKey(u.Elem(), i)
					walk(Select(vc.heapGet(vc.entry, key), t), stt.Field(i).Type(), d+1)
				}
			}
		}
	}
	for i, p := range vc.fn.Params {
		walk(vc.params[i], p.Type(), 0)
	}
	return out
}
