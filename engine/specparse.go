package main

import (
	"fmt"
	"strings"
	"unicode"
)

// ---------------------------------------------------------------- spec expression AST

type SKind int

const (
	EIdent SKind = iota
	ENum
	EStr
	EChar
	EUnary
	EBinary
	ECall
	EIndex
	ESelect
	EQuant
	ECond
)

type SExpr struct {
	K       SKind
	Op      string // operator, identifier, literal text, "forall"/"exists"
	X, Y, Z *SExpr
	Args    []*SExpr
	Vars    []QVar // quantifier variables
	Pos     int
}

type QVar struct {
	Name string
	Type string
}

func (e *SExpr) String() string {
	if e == nil {
		return "<nil>"
	}
	switch e.K {
	case EIdent, ENum:
		return e.Op
	case EStr:
		return fmt.Sprintf("%q", e.Op)
	case EChar:
		return "'" + e.Op + "'"
	case EUnary:
		return e.Op + e.X.String()
	case EBinary:
		return "(" + e.X.String() + " " + e.Op + " " + e.Y.String() + ")"
	case ECall:
		var as []string
		for _, a := range e.Args {
			as = append(as, a.String())
		}
		return e.X.String() + "(" + strings.Join(as, ", ") + ")"
	case EIndex:
		return e.X.String() + "[" + e.Y.String() + "]"
	case ESelect:
		return e.X.String() + "." + e.Op
	case EQuant:
		var vs []string
		for _, v := range e.Vars {
			vs = append(vs, v.Name+" "+v.Type)
		}
		return "(" + e.Op + " " + strings.Join(vs, ", ") + " :: " + e.X.String() + ")"
	case ECond:
		return "(" + e.X.String() + " ? " + e.Y.String() + " : " + e.Z.String() + ")"
	}
	return "?"
}

// substIdent replaces free identifiers (macro expansion for `let`).
func (e *SExpr) substIdent(m map[string]*SExpr) *SExpr {
	if e == nil || len(m) == 0 {
		return e
	}
	switch e.K {
	case EIdent:
		if r, ok := m[e.Op]; ok {
			return r
		}
		return e
	case ENum, EStr, EChar:
		return e
	}
	n := *e
	if e.K == EQuant {
		m2 := map[string]*SExpr{}
		for k, v := range m {
			m2[k] = v
		}
		for _, v := range e.Vars {
			delete(m2, v.Name)
		}
		m = m2
	}
	if e.K == ECall {
		// do not substitute the callee name
		if e.X.K != EIdent {
			n.X = e.X.substIdent(m)
		} else if e.X.K == EIdent {
			n.X = e.X
		}
	} else {
		n.X = e.X.substIdent(m)
	}
	n.Y = e.Y.substIdent(m)
	n.Z = e.Z.substIdent(m)
	if e.Args != nil {
		n.Args = make([]*SExpr, len(e.Args))
		for i, a := range e.Args {
			n.Args[i] = a.substIdent(m)
		}
	}
	return &n
}

// ---------------------------------------------------------------- lexer

type tok struct {
	k   string // "id","num","str","char","op","eof"
	s   string
	pos int
}

func lexSpec(src string) ([]tok, error) {
	var out []tok
	i := 0
	ops := []string{"<==>", "==>", "::", "&&", "||", "==", "!=", "<=", ">=", "<<", ">>", "&^",
		"+", "-", "*", "/", "%", "&", "|", "^", "!", "<", ">", "(", ")", "[", "]", ",", ".", "?", ":", "="}
	for i < len(src) {
		c := src[i]
		if c == ' ' || c == '\t' || c == '\n' || c == '\r' {
			i++
			continue
		}
		if unicode.IsLetter(rune(c)) || c == '_' {
			j := i
			for j < len(src) && (unicode.IsLetter(rune(src[j])) || unicode.IsDigit(rune(src[j])) || src[j] == '_') {
				j++
			}
			out = append(out, tok{"id", src[i:j], i})
			i = j
			continue
		}
		if c >= '0' && c <= '9' {
			j := i
			if c == '0' && j+1 < len(src) && (src[j+1] == 'x' || src[j+1] == 'X') {
				j += 2
				for j < len(src) && strings.ContainsRune("0123456789abcdefABCDEF_", rune(src[j])) {
					j++
				}
			} else {
				for j < len(src) && (src[j] >= '0' && src[j] <= '9' || src[j] == '_') {
					j++
				}
				// fraction: digit '.' digit (avoid eating selector dots)
				if j+1 < len(src) && src[j] == '.' && src[j+1] >= '0' && src[j+1] <= '9' {
					j++
					for j < len(src) && src[j] >= '0' && src[j] <= '9' {
						j++
					}
				}
				if j < len(src) && (src[j] == 'e' || src[j] == 'E') {
					k := j + 1
					if k < len(src) && (src[k] == '+' || src[k] == '-') {
						k++
					}
					if k < len(src) && src[k] >= '0' && src[k] <= '9' {
						for k < len(src) && src[k] >= '0' && src[k] <= '9' {
							k++
						}
						j = k
					}
				}
			}
			out = append(out, tok{"num", strings.ReplaceAll(src[i:j], "_", ""), i})
			i = j
			continue
		}
		if c == '"' {
			j := i + 1
			var sb strings.Builder
			for j < len(src) && src[j] != '"' {
				if src[j] == '\\' && j+1 < len(src) {
					j++
					switch src[j] {
					case 'n':
						sb.WriteByte('\n')
					case 't':
						sb.WriteByte('\t')
					case 'r':
						sb.WriteByte('\r')
					case '0':
						sb.WriteByte(0)
					default:
						sb.WriteByte(src[j])
					}
				} else {
					sb.WriteByte(src[j])
				}
				j++
			}
			if j >= len(src) {
				return nil, fmt.Errorf("unterminated string at %d", i)
			}
			out = append(out, tok{"str", sb.String(), i})
			i = j + 1
			continue
		}
		if c == '\'' {
			j := i + 1
			var ch byte
			if j < len(src) && src[j] == '\\' && j+1 < len(src) {
				j++
				switch src[j] {
				case 'n':
					ch = '\n'
				case 't':
					ch = '\t'
				case 'r':
					ch = '\r'
				case '0':
					ch = 0
				default:
					ch = src[j]
				}
			} else if j < len(src) {
				ch = src[j]
			}
			j++
			if j >= len(src) || src[j] != '\'' {
				return nil, fmt.Errorf("bad char literal at %d", i)
			}
			out = append(out, tok{"char", string([]byte{ch}), i})
			i = j + 1
			continue
		}
		matched := false
		for _, op := range ops {
			if strings.HasPrefix(src[i:], op) {
				out = append(out, tok{"op", op, i})
				i += len(op)
				matched = true
				break
			}
		}
		if !matched {
			return nil, fmt.Errorf("unexpected character %q at %d in %q", c, i, src)
		}
	}
	out = append(out, tok{"eof", "", len(src)})
	return out, nil
}

// ---------------------------------------------------------------- parser

type sparser struct {
	toks []tok
	p    int
	src  string
}

func parseSpecExpr(src string) (*SExpr, error) {
	toks, err := lexSpec(src)
	if err != nil {
		return nil, err
	}
	ps := &sparser{toks: toks, src: src}
	var e *SExpr
	func() {
		defer func() {
			if r := recover(); r != nil {
				if pe, ok := r.(parseErr); ok {
					err = fmt.Errorf("%s (in %q)", string(pe), src)
					return
				}
				panic(r)
			}
		}()
		e = ps.expr()
		if ps.cur().k != "eof" {
			ps.fail("unexpected %q", ps.cur().s)
		}
	}()
	return e, err
}

type parseErr string

func (ps *sparser) fail(f string, a ...interface{}) {
	panic(parseErr(fmt.Sprintf("spec parse error at %d: ", ps.cur().pos) + fmt.Sprintf(f, a...)))
}
func (ps *sparser) cur() tok { return ps.toks[ps.p] }
func (ps *sparser) isOp(s string) bool {
	t := ps.cur()
	return t.k == "op" && t.s == s
}
func (ps *sparser) isID(s string) bool {
	t := ps.cur()
	return t.k == "id" && t.s == s
}
func (ps *sparser) eat(s string) {
	if !ps.isOp(s) {
		ps.fail("expected %q, got %q", s, ps.cur().s)
	}
	ps.p++
}

func (ps *sparser) expr() *SExpr {
	if ps.isID("forall") || ps.isID("exists") {
		q := ps.cur().s
		pos := ps.cur().pos
		ps.p++
		var vars []QVar
		for {
			var names []string
			for {
				if ps.cur().k != "id" {
					ps.fail("expected variable name")
				}
				names = append(names, ps.cur().s)
				ps.p++
				if ps.isOp(",") {
					ps.p++
					continue
				}
				break
			}
			if ps.cur().k != "id" {
				ps.fail("expected type name")
			}
			// the last name collected is actually... names then a type
			ty := ps.cur().s
			ps.p++
			for _, n := range names {
				vars = append(vars, QVar{n, ty})
			}
			if ps.isOp(",") {
				ps.p++
				continue
			}
			break
		}
		ps.eat("::")
		body := ps.expr()
		return &SExpr{K: EQuant, Op: q, Vars: vars, X: body, Pos: pos}
	}
	return ps.iff()
}

func (ps *sparser) iff() *SExpr {
	l := ps.implies()
	for ps.isOp("<==>") {
		pos := ps.cur().pos
		ps.p++
		r := ps.implies()
		l = &SExpr{K: EBinary, Op: "<==>", X: l, Y: r, Pos: pos}
	}
	return l
}

func (ps *sparser) implies() *SExpr {
	l := ps.cond()
	if ps.isOp("==>") {
		pos := ps.cur().pos
		ps.p++
		var r *SExpr
		if ps.isID("forall") || ps.isID("exists") {
			r = ps.expr()
		} else {
			r = ps.implies()
		}
		return &SExpr{K: EBinary, Op: "==>", X: l, Y: r, Pos: pos}
	}
	return l
}

func (ps *sparser) cond() *SExpr {
	c := ps.binary(0)
	if ps.isOp("?") {
		pos := ps.cur().pos
		ps.p++
		a := ps.cond()
		ps.eat(":")
		b := ps.cond()
		return &SExpr{K: ECond, X: c, Y: a, Z: b, Pos: pos}
	}
	return c
}

var binPrec = map[string]int{
	"||": 1, "&&": 2,
	"==": 3, "!=": 3, "<": 3, "<=": 3, ">": 3, ">=": 3,
	"+": 4, "-": 4, "|": 4, "^": 4,
	"*": 5, "/": 5, "%": 5, "<<": 5, ">>": 5, "&": 5, "&^": 5,
}

func (ps *sparser) binary(minPrec int) *SExpr {
	l := ps.unary()
	for {
		t := ps.cur()
		if t.k != "op" {
			return l
		}
		p, ok := binPrec[t.s]
		if !ok || p <= minPrec {
			return l
		}
		ps.p++
		var r *SExpr
		if (t.s == "&&" || t.s == "||") && (ps.isID("forall") || ps.isID("exists")) {
			r = ps.expr()
		} else {
			r = ps.binary(p)
		}
		l = &SExpr{K: EBinary, Op: t.s, X: l, Y: r, Pos: t.pos}
	}
}

func (ps *sparser) unary() *SExpr {
	t := ps.cur()
	if t.k == "op" && (t.s == "!" || t.s == "-" || t.s == "^" || t.s == "+") {
		ps.p++
		x := ps.unary()
		if t.s == "+" {
			return x
		}
		return &SExpr{K: EUnary, Op: t.s, X: x, Pos: t.pos}
	}
	return ps.postfix()
}

func (ps *sparser) postfix() *SExpr {
	e := ps.primary()
	for {
		t := ps.cur()
		switch {
		case ps.isOp("("):
			ps.p++
			var args []*SExpr
			for !ps.isOp(")") {
				args = append(args, ps.expr())
				if ps.isOp(",") {
					ps.p++
				} else {
					break
				}
			}
			ps.eat(")")
			e = &SExpr{K: ECall, X: e, Args: args, Pos: t.pos}
		case ps.isOp("["):
			ps.p++
			i := ps.expr()
			ps.eat("]")
			e = &SExpr{K: EIndex, X: e, Y: i, Pos: t.pos}
		case ps.isOp("."):
			ps.p++
			if ps.cur().k != "id" {
				ps.fail("expected field name after '.'")
			}
			e = &SExpr{K: ESelect, X: e, Op: ps.cur().s, Pos: t.pos}
			ps.p++
		default:
			return e
		}
	}
}

func (ps *sparser) primary() *SExpr {
	t := ps.cur()
	switch t.k {
	case "id":
		ps.p++
		return &SExpr{K: EIdent, Op: t.s, Pos: t.pos}
	case "num":
		ps.p++
		return &SExpr{K: ENum, Op: t.s, Pos: t.pos}
	case "str":
		ps.p++
		return &SExpr{K: EStr, Op: t.s, Pos: t.pos}
	case "char":
		ps.p++
		return &SExpr{K: EChar, Op: t.s, Pos: t.pos}
	case "op":
		if t.s == "(" {
			ps.p++
			e := ps.expr()
			ps.eat(")")
			return e
		}
		if t.s == "*" { // pointer type in conversions is not supported; treat as error
			ps.fail("unexpected '*'")
		}
	}
	ps.fail("unexpected token %q", t.s)
	return nil
}
