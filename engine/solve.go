package main

import (
	"bytes"
	"context"
	"fmt"
	"os"
	"os/exec"
	"path/filepath"
	"strings"
	"sync"
	"time"
)

type SolverCfg struct {
	Name string
	Bin  string
}

var allSolvers = []SolverCfg{{"z3-5.1", "z3-new"}, {"z3-4.8", "z3"}, {"cvc5-1.0", "cvc5"}}

func solverAvailable(s SolverCfg) bool {
	_, err := exec.LookPath(s.Bin)
	return err == nil
}

func (vc *VC) prelude(forCvc5 bool) string {
	var sb strings.Builder
	sb.WriteString("(set-option :produce-models true)\n")
	sb.WriteString("(set-logic ALL)\n")
	ix := vc.idxSort().String()
	fmt.Fprintf(&sb, "(declare-datatypes ((Slice 0)) (((mk-slice (s.arr Int) (s.off %s) (s.len %s) (s.cap %s)))))\n", ix, ix, ix)
	sb.WriteString("(declare-datatypes ((Iface 0)) (((mk-iface (i.tag Int) (i.val Int)))))\n")
	for _, s := range vc.dataOrder {
		ctor := smtName("mk!" + strings.Trim(s.Name, "|"))
		fmt.Fprintf(&sb, "(declare-datatypes ((%s 0)) (((%s", s.Name, ctor)
		for _, f := range s.Field {
			fmt.Fprintf(&sb, " (%s %s)", f.Name, f.S.String())
		}
		sb.WriteString("))))\n")
	}
	sb.WriteString("(define-fun tdiv ((a Int) (b Int)) Int (ite (>= a 0) (ite (> b 0) (div a b) (- (div a (- b)))) (ite (> b 0) (- (div (- a) b)) (div (- a) (- b)))))\n")
	sb.WriteString("(define-fun tmod ((a Int) (b Int)) Int (- a (* b (tdiv a b))))\n")
	for _, d := range vc.decls {
		sb.WriteString(d)
		sb.WriteByte('\n')
	}
	return sb.String()
}

// incrementalScript renders all obligations of the VC as one push/pop script.
func (vc *VC) incrementalScript(obls []*Obl) string {
	var sb strings.Builder
	sb.WriteString(vc.prelude(false))
	byPrefix := map[int][]*Obl{}
	for _, o := range obls {
		byPrefix[o.NFacts] = append(byPrefix[o.NFacts], o)
	}
	emit := func(n int) {
		for _, o := range byPrefix[n] {
			fmt.Fprintf(&sb, "(echo \"@obl %s\")\n(push 1)\n", o.Name)
			fmt.Fprintf(&sb, "(assert %s)\n", o.Guard.String())
			if !o.WantSat {
				fmt.Fprintf(&sb, "(assert (not %s))\n", o.Cond.String())
			}
			sb.WriteString("(check-sat)\n(pop 1)\n")
		}
	}
	for i, f := range vc.facts {
		emit(i)
		fmt.Fprintf(&sb, "(assert %s)\n", f.String())
	}
	emit(len(vc.facts))
	return sb.String()
}

// singleScript renders one obligation as a stand-alone query (with model request).
func (vc *VC) singleScript(o *Obl, getValues []string) string {
	var sb strings.Builder
	sb.WriteString(vc.prelude(false))
	for _, f := range vc.facts[:o.NFacts] {
		fmt.Fprintf(&sb, "(assert %s)\n", f.String())
	}
	fmt.Fprintf(&sb, "(assert %s)\n", o.Guard.String())
	if !o.WantSat {
		fmt.Fprintf(&sb, "(assert (not %s))\n", o.Cond.String())
	}
	sb.WriteString("(check-sat)\n")
	if len(getValues) > 0 {
		fmt.Fprintf(&sb, "(get-value (%s))\n", strings.Join(getValues, " "))
	}
	return sb.String()
}

func runSolver(s SolverCfg, file string, perQueryMs int, totalTimeout time.Duration) (string, error) {
	var args []string
	switch s.Bin {
	case "cvc5":
		args = []string{"--incremental", fmt.Sprintf("--tlimit-per=%d", perQueryMs), file}
	default:
		args = []string{"-smt2", fmt.Sprintf("-t:%d", perQueryMs), file}
	}
	ctx, cancel := context.WithTimeout(context.Background(), totalTimeout)
	defer cancel()
	cmd := exec.CommandContext(ctx, s.Bin, args...)
	var out bytes.Buffer
	cmd.Stdout = &out
	cmd.Stderr = &out
	err := cmd.Run()
	if ctx.Err() != nil {
		return out.String(), fmt.Errorf("timeout")
	}
	_ = err // z3 4.8 exits 1 in some benign cases; the output decides
	return out.String(), nil
}

// parseIncremental maps "@obl name" markers to the following status line.
func parseIncremental(out string) map[string]string {
	res := map[string]string{}
	cur := ""
	for _, line := range strings.Split(out, "\n") {
		line = strings.TrimSpace(line)
		if strings.HasPrefix(line, "@obl ") || strings.HasPrefix(line, "\"@obl ") {
			cur = strings.Trim(strings.TrimPrefix(strings.Trim(line, "\""), "@obl "), "\"")
			continue
		}
		if cur == "" {
			continue
		}
		switch line {
		case "sat", "unsat", "unknown", "timeout":
			if _, done := res[cur]; !done {
				res[cur] = line
			}
			cur = ""
		default:
			if strings.HasPrefix(line, "(error") {
				if _, done := res[cur]; !done {
					res[cur] = "error: " + line
				}
				cur = ""
			}
		}
	}
	return res
}

type SolveOpts struct {
	WorkDir   string
	QuickMs   int // per-query timeout in the incremental pass
	SingleMs  int // timeout for individually re-checked obligations
	AllSolvers bool // thorough: every obligation on every solver
	KeepFiles bool
}

var solveSem = make(chan struct{}, 16)

// solveVC discharges the obligations of vc. It fills Status/Solver/Millis on every obligation.
func solveVC(vc *VC, obls []*Obl, opts SolveOpts) {
	if len(obls) == 0 {
		return
	}
	os.MkdirAll(opts.WorkDir, 0o755)
	base := filepath.Join(opts.WorkDir, sanitizeFile(vc.funcName()))
	script := vc.incrementalScript(obls)
	file := base + ".inc.smt2"
	os.WriteFile(file, []byte(script), 0o644)
	primary := allSolvers[0]
	if !solverAvailable(primary) {
		primary = allSolvers[1]
	}
	t0 := time.Now()
	solveSem <- struct{}{}
	out, err := runSolver(primary, file, opts.QuickMs, time.Duration(opts.QuickMs*len(obls)+20000)*time.Millisecond)
	<-solveSem
	el := time.Since(t0).Milliseconds()
	res := parseIncremental(out)
	_ = err
	for _, o := range obls {
		st, ok := res[o.Name]
		if !ok {
			st = "unknown"
			if strings.Contains(out, "(error") {
				st = "error: " + firstErrorLine(out)
			}
		}
		o.Status = st
		o.Solver = primary.Name
		o.Millis = el / int64(len(obls))
	}
	if !opts.KeepFiles {
		os.Remove(file)
	}
	// re-check what is not settled, racing all solvers on stand-alone queries
	var wg sync.WaitGroup
	for _, o := range obls {
		need := false
		if o.WantSat {
			need = o.Status != "sat" && o.Status != "unsat" // unknown: try others
		} else {
			need = o.Status != "unsat"
		}
		if opts.AllSolvers && !o.WantSat {
			need = true
		}
		if !need {
			continue
		}
		wg.Add(1)
		go func(o *Obl) {
			defer wg.Done()
			raceSingle(vc, o, base, opts)
		}(o)
	}
	wg.Wait()
}

func firstErrorLine(out string) string {
	for _, l := range strings.Split(out, "\n") {
		if strings.Contains(l, "(error") {
			return strings.TrimSpace(l)
		}
	}
	return ""
}

func sanitizeFile(s string) string {
	r := strings.NewReplacer("/", "_", "(", "", ")", "", "*", "p", " ", "_", "#", "-", ":", "_", "$", "_")
	s = r.Replace(s)
	if len(s) > 120 {
		s = s[:120]
	}
	return s
}

func raceSingle(vc *VC, o *Obl, base string, opts SolveOpts) {
	script := vc.singleScript(o, nil)
	file := fmt.Sprintf("%s.%s.smt2", base, sanitizeFile(strings.TrimPrefix(o.Name, vc.funcName())))
	os.WriteFile(file, []byte(script), 0o644)
	defer func() {
		if !opts.KeepFiles {
			os.Remove(file)
		}
	}()
	type result struct {
		solver string
		status string
		ms     int64
		out    string
	}
	ch := make(chan result, len(allSolvers))
	n := 0
	for _, s := range allSolvers {
		if !solverAvailable(s) {
			continue
		}
		n++
		go func(s SolverCfg) {
			solveSem <- struct{}{}
			t0 := time.Now()
			out, err := runSolver(s, file, opts.SingleMs, time.Duration(opts.SingleMs+5000)*time.Millisecond)
			<-solveSem
			st := "unknown"
			if err != nil {
				st = "timeout"
			}
			for _, line := range strings.Split(out, "\n") {
				line = strings.TrimSpace(line)
				if line == "sat" || line == "unsat" || line == "unknown" || line == "timeout" {
					st = line
					break
				}
				if strings.HasPrefix(line, "(error") {
					st = "error: " + line
					break
				}
			}
			ch <- result{s.Name, st, time.Since(t0).Milliseconds(), out}
		}(s)
	}
	var results []result
	for i := 0; i < n; i++ {
		results = append(results, <-ch)
	}
	// verdict: unsat from any solver discharges; in AllSolvers mode a sat from another solver is a disagreement
	var unsat, sat *result
	for i := range results {
		r := &results[i]
		if r.status == "unsat" && unsat == nil {
			unsat = r
		}
		if r.status == "sat" && sat == nil {
			sat = r
		}
	}
	var notes []string
	for _, r := range results {
		notes = append(notes, fmt.Sprintf("%s=%s(%dms)", r.solver, r.status, r.ms))
	}
	o.Output = strings.Join(notes, " ")
	switch {
	case o.WantSat:
		if sat != nil {
			o.Status, o.Solver, o.Millis = "sat", sat.solver, sat.ms
		} else if unsat != nil {
			o.Status, o.Solver, o.Millis = "unsat", unsat.solver, unsat.ms
		}
	case unsat != nil && sat != nil:
		o.Status, o.Solver = "disagree", unsat.solver+" vs "+sat.solver
	case unsat != nil:
		o.Status, o.Solver, o.Millis = "unsat", unsat.solver, unsat.ms
	case sat != nil:
		o.Status, o.Solver, o.Millis = "sat", sat.solver, sat.ms
	default:
		best := results[0]
		for _, r := range results {
			if strings.HasPrefix(r.status, "error") {
				best = r
			}
		}
		o.Status, o.Solver, o.Millis = best.status, best.solver, best.ms
	}
}

func (o *Obl) discharged() bool {
	if o.WantSat {
		return o.Status != "unsat" && !strings.HasPrefix(o.Status, "error")
	}
	return o.Status == "unsat"
}
