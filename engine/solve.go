package main

import (
	"bytes"
	"context"
	"fmt"
	"math/big"
	"os"
	"os/exec"
	"path/filepath"
	"strings"
	"sync"
	"time"
)

type SolverCfg struct {
	Name string
	Bin  string
}

var allSolvers = []SolverCfg{{"z3-5.1", "z3-new"}, {"z3-4.8", "z3"}, {"cvc5-1.0", "cvc5"}}

func solverAvailable(s SolverCfg) bool {
	_, err := exec.LookPath(s.Bin)
	return err == nil
}

func (vc *VC) prelude(forCvc5 bool) string {
	var sb strings.Builder
	sb.WriteString("(set-option :produce-models true)\n")
	sb.WriteString("(set-logic ALL)\n")
	ix := vc.idxSort().String()
	fmt.Fprintf(&sb, "(declare-datatypes ((Slice 0)) (((mk-slice (s.arr Int) (s.off %s) (s.len %s) (s.cap %s)))))\n", ix, ix, ix)
	sb.WriteString("(declare-datatypes ((Iface 0)) (((mk-iface (i.tag Int) (i.val Int)))))\n")
	for _, s := range vc.dataOrder {
		ctor := smtName("mk!" + strings.Trim(s.Name, "|"))
		fmt.Fprintf(&sb, "(declare-datatypes ((%s 0)) (((%s", s.Name, ctor)
		for _, f := range s.Field {
			fmt.Fprintf(&sb, " (%s %s)", f.Name, f.S.String())
		}
		sb.WriteString("))))\n")
	}
	sb.WriteString("(define-fun tdiv ((a Int) (b Int)) Int (ite (>= a 0) (ite (> b 0) (div a b) (- (div a (- b)))) (ite (> b 0) (- (div (- a) b)) (div (- a) (- b)))))\n")
	sb.WriteString("(define-fun tmod ((a Int) (b Int)) Int (- a (* b (tdiv a b))))\n")
	for _, d := range vc.decls {
		sb.WriteString(d)
		sb.WriteByte('\n')
	}
	return sb.String()
}

// incrementalScript renders all obligations of the VC as one push/pop script.
func (vc *VC) incrementalScript(obls []*Obl) string { return vc.incrementalScriptG(obls, false) }

// incrementalScriptG: with ground=true the quantified hypotheses are left out (only their instances at the
// goal's skolem terms remain); dropping hypotheses is sound for a proof.
func (vc *VC) incrementalScriptG(obls []*Obl, ground bool) string {
	var sb strings.Builder
	sb.WriteString(vc.prelude(false))
	byPrefix := map[int][]*Obl{}
	for _, o := range obls {
		byPrefix[o.NFacts] = append(byPrefix[o.NFacts], o)
	}
	emit := func(n int) {
		for _, o := range byPrefix[n] {
			fmt.Fprintf(&sb, "(echo \"@obl %s\")\n(push 1)\n", o.Name)
			sb.WriteString(vc.oblQuery(o))
			sb.WriteString("(check-sat)\n(pop 1)\n")
		}
	}
	for i, f := range vc.facts {
		emit(i)
		if ground && hasQuant(f) {
			if g := groundPart(f); !g.IsTrue() {
				fmt.Fprintf(&sb, "(assert %s)\n", g.String())
			}
			continue
		}
		fmt.Fprintf(&sb, "(assert %s)\n", f.String())
	}
	emit(len(vc.facts))
	return sb.String()
}

// singleScript renders one obligation as a stand-alone query (with model request).
func (vc *VC) singleScript(o *Obl, getValues []string) string {
	return vc.singleScriptG(o, getValues, false)
}

func (vc *VC) singleScriptG(o *Obl, getValues []string, ground bool) string {
	var sb strings.Builder
	sb.WriteString(vc.prelude(false))
	for _, f := range vc.facts[:o.NFacts] {
		if ground && hasQuant(f) {
			if g := groundPart(f); !g.IsTrue() {
				fmt.Fprintf(&sb, "(assert %s)\n", g.String())
			}
			continue
		}
		fmt.Fprintf(&sb, "(assert %s)\n", f.String())
	}
	sb.WriteString(vc.oblQuery(o))
	sb.WriteString("(check-sat)\n")
	if len(getValues) > 0 {
		fmt.Fprintf(&sb, "(get-value (%s))\n", strings.Join(getValues, " "))
	}
	return sb.String()
}

func runSolver(s SolverCfg, file string, perQueryMs int, totalTimeout time.Duration) (string, error) {
	return runSolverCtx(context.Background(), s, file, perQueryMs, totalTimeout)
}

func runSolverCtx(parent context.Context, s SolverCfg, file string, perQueryMs int, totalTimeout time.Duration) (string, error) {
	var args []string
	switch s.Bin {
	case "cvc5":
		args = []string{"--incremental", fmt.Sprintf("--tlimit-per=%d", perQueryMs), file}
	default:
		args = []string{"-smt2", fmt.Sprintf("-t:%d", perQueryMs), file}
	}
	ctx, cancel := context.WithTimeout(parent, totalTimeout)
	defer cancel()
	cmd := exec.CommandContext(ctx, s.Bin, args...)
	var out bytes.Buffer
	cmd.Stdout = &out
	cmd.Stderr = &out
	err := cmd.Run()
	if ctx.Err() != nil {
		return out.String(), fmt.Errorf("timeout")
	}
	_ = err // z3 4.8 exits 1 in some benign cases; the output decides
	return out.String(), nil
}

// parseIncremental maps "@obl name" markers to the following status line.
func parseIncremental(out string) map[string]string {
	res := map[string]string{}
	cur := ""
	for _, line := range strings.Split(out, "\n") {
		line = strings.TrimSpace(line)
		if strings.HasPrefix(line, "@obl ") || strings.HasPrefix(line, "\"@obl ") {
			cur = strings.Trim(strings.TrimPrefix(strings.Trim(line, "\""), "@obl "), "\"")
			continue
		}
		if cur == "" {
			continue
		}
		switch line {
		case "sat", "unsat", "unknown", "timeout":
			if _, done := res[cur]; !done {
				res[cur] = line
			}
			cur = ""
		default:
			if strings.HasPrefix(line, "(error") {
				if _, done := res[cur]; !done {
					res[cur] = "error: " + line
				}
				cur = ""
			}
		}
	}
	return res
}

type SolveOpts struct {
	WorkDir    string
	QuickMs    int  // per-query timeout in the incremental pass
	SingleMs   int  // timeout for individually re-checked obligations
	AllSolvers bool // thorough: every obligation on every solver
	KeepFiles  bool
}

var solveSem = make(chan struct{}, 16)

// solveVC discharges the obligations of vc. It fills Status/Solver/Millis on every obligation.
func solveVC(vc *VC, obls []*Obl, opts SolveOpts) {
	if len(obls) == 0 {
		return
	}
	os.MkdirAll(opts.WorkDir, 0o755)
	base := filepath.Join(opts.WorkDir, sanitizeFile(vc.funcName()))
	primary := allSolvers[0]
	if !solverAvailable(primary) {
		primary = allSolvers[1]
	}
	var proofs, vacs []*Obl
	for _, o := range obls {
		if o.WantSat {
			vacs = append(vacs, o)
		} else {
			proofs = append(proofs, o)
		}
	}
	runInc := func(set []*Obl, ground bool, tag string) {
		if len(set) == 0 {
			return
		}
		file := base + "." + tag + ".smt2"
		os.WriteFile(file, []byte(vc.incrementalScriptG(set, ground)), 0o644)
		t0 := time.Now()
		solveSem <- struct{}{}
		out, _ := runSolver(primary, file, opts.QuickMs, time.Duration(opts.QuickMs*len(set)+20000)*time.Millisecond)
		<-solveSem
		el := time.Since(t0).Milliseconds()
		res := parseIncremental(out)
		for _, o := range set {
			st, ok := res[o.Name]
			if !ok {
				st = "unknown"
				if strings.Contains(out, "(error") {
					st = "error: " + firstErrorLine(out)
				}
			}
			o.Status = st
			o.Solver = primary.Name
			o.Millis = el / int64(len(set))
		}
		if !opts.KeepFiles {
			os.Remove(file)
		}
	}
	if vc.isBV() {
		runInc(proofs, true, "ground")
	} else {
		// int mode: a cheap quantifier-free pass first (hypotheses instantiated at the goal's terms), then the full
		// problem for what is left ("sat" on the weakened problem means nothing)
		saveQ := opts.QuickMs
		if opts.QuickMs > 2000 {
			opts.QuickMs = 2000
		}
		runInc(proofs, true, "ground")
		opts.QuickMs = saveQ
		var rest []*Obl
		for _, o := range proofs {
			if o.Status != "unsat" {
				o.Status = "unknown"
				rest = append(rest, o)
			}
		}
		runInc(rest, false, "full")
	}
	// vacuity probes use the quantifier-free part of the assumptions only: "unsat" there is conclusive
	// (a subset of the assumptions is already contradictory); "sat"/"unknown" count as non-vacuous.
	saveQ := opts.QuickMs
	opts.QuickMs = 3000
	runInc(vacs, true, "vac")
	opts.QuickMs = saveQ
	// re-check what is not settled, racing all solvers on stand-alone queries
	var wg sync.WaitGroup
	for _, o := range obls {
		need := false
		if o.WantSat {
			need = false
		} else {
			need = o.Status != "unsat"
		}
		if opts.AllSolvers && !o.WantSat && !(o.Kind == "lemma" && strings.Contains(o.Name, "[")) {
			// thorough tier: every obligation is cross-checked on all solvers, except the enumerated cases of table
			// lemmas (tens of thousands of ground instances, already decided by the primary solver)
			need = true
		}
		if !need {
			continue
		}
		wg.Add(1)
		go func(o *Obl) {
			defer wg.Done()
			prev, prevSolver, prevMs := o.Status, o.Solver, o.Millis
			raceSingle(vc, o, base, opts)
			if prev == "unsat" && !o.WantSat {
				// the incremental pass had already discharged it: the stand-alone cross-check may confirm it, be
				// inconclusive (then the earlier answer stands) or contradict it (sat: a disagreement, reported)
				switch o.Status {
				case "unsat", "disagree":
				case "sat":
					o.Status, o.Solver = "disagree", prevSolver+" (incremental) vs "+o.Solver
				default:
					o.Output = "stand-alone cross-check inconclusive (" + o.Output + "); discharged in the incremental pass"
					o.Status, o.Solver, o.Millis = "unsat", prevSolver, prevMs
				}
			}
		}(o)
	}
	wg.Wait()
	// an obligation that merely timed out (no solver said sat) gets one more race with four times the budget before
	// it is reported: on a loaded machine a proof that normally takes seconds must not turn into an alarm
	if true {
		retry := opts
		retry.SingleMs = opts.SingleMs * 4
		n := 0
		for _, o := range obls {
			if o.WantSat || o.Status == "unsat" || o.Status == "sat" || o.Status == "disagree" || strings.HasPrefix(o.Status, "error") {
				continue
			}
			n++
			if n > 12 {
				break // many undecided obligations: this is a real failure, not load
			}
		}
		if n > 0 && n <= 12 {
			// first the incremental formulations again with five times the per-query budget (some obligations are
			// only ever decided there), then the stand-alone race
			var und []*Obl
			for _, o := range obls {
				if o.WantSat || o.Status == "unsat" || o.Status == "sat" || o.Status == "disagree" || strings.HasPrefix(o.Status, "error") {
					continue
				}
				und = append(und, o)
			}
			saveQ := opts.QuickMs
			opts.QuickMs = saveQ * 5
			notes := map[*Obl]string{}
			for _, o := range und {
				notes[o] = o.Output
			}
			runInc(und, true, "retry-ground")
			var rest []*Obl
			for _, o := range und {
				if o.Status != "unsat" {
					o.Status = "unknown"
					rest = append(rest, o)
				}
			}
			runInc(rest, false, "retry-full")
			opts.QuickMs = saveQ
			for _, o := range und {
				if o.Status != "unsat" {
					o.Status = "unknown"
					o.Output = notes[o]
				}
			}
			var wg2 sync.WaitGroup
			for _, o := range obls {
				if o.WantSat || o.Status == "unsat" || o.Status == "sat" || o.Status == "disagree" || strings.HasPrefix(o.Status, "error") {
					continue
				}
				if opts.AllSolvers || opts.SingleMs > 60000 {
					continue // thorough tier: the stand-alone race already had its long budget
				}
				wg2.Add(1)
				go func(o *Obl) {
					defer wg2.Done()
					raceSingle(vc, o, base, retry)
				}(o)
			}
			wg2.Wait()
		}
	}
}

func firstErrorLine(out string) string {
	for _, l := range strings.Split(out, "\n") {
		if strings.Contains(l, "(error") {
			return strings.TrimSpace(l)
		}
	}
	return ""
}

func sanitizeFile(s string) string {
	r := strings.NewReplacer("/", "_", "(", "", ")", "", "*", "p", " ", "_", "#", "-", ":", "_", "$", "_", "[", "_", "]", "_", "=", "", ",", "_", "@", "_", "!", "_")
	s = r.Replace(s)
	if len(s) > 120 {
		s = s[:120]
	}
	return s
}

func raceSingle(vc *VC, o *Obl, base string, opts SolveOpts) {
	file := fmt.Sprintf("%s.%s.smt2", base, sanitizeFile(strings.TrimPrefix(o.Name, vc.funcName())))
	os.WriteFile(file, []byte(vc.singleScriptG(o, nil, false)), 0o644)
	gfile := strings.TrimSuffix(file, ".smt2") + ".ground.smt2"
	if !o.WantSat {
		os.WriteFile(gfile, []byte(vc.singleScriptG(o, nil, true)), 0o644)
	}
	defer func() {
		if !opts.KeepFiles {
			os.Remove(file)
			os.Remove(gfile)
		}
	}()
	type result struct {
		solver string
		status string
		ms     int64
		out    string
	}
	ch := make(chan result, 2*len(allSolvers))
	n := 0
	type job struct {
		s      SolverCfg
		file   string
		ground bool
	}
	var jobs []job
	for _, s := range allSolvers {
		if !solverAvailable(s) {
			continue
		}
		jobs = append(jobs, job{s, file, false})
		if !o.WantSat {
			jobs = append(jobs, job{s, gfile, true})
		}
	}
	raceCtx, raceCancel := context.WithCancel(context.Background())
	defer raceCancel()
	for _, j := range jobs {
		n++
		go func(j job) {
			s := j.s
			file := j.file
			solveSem <- struct{}{}
			t0 := time.Now()
			out, err := runSolverCtx(raceCtx, s, file, opts.SingleMs, time.Duration(opts.SingleMs+5000)*time.Millisecond)
			<-solveSem
			st := "unknown"
			if err != nil {
				st = "timeout"
			}
			for _, line := range strings.Split(out, "\n") {
				line = strings.TrimSpace(line)
				if line == "sat" || line == "unsat" || line == "unknown" || line == "timeout" {
					st = line
					break
				}
				if strings.HasPrefix(line, "(error") {
					st = "error: " + line
					break
				}
			}
			name := s.Name
			if j.ground {
				name += "/ground"
				// a model of the weakened (ground) query is not a counterexample of the obligation
				if st == "sat" {
					st = "unknown"
				}
			}
			ch <- result{name, st, time.Since(t0).Milliseconds(), out}
		}(j)
	}
	var results []result
	for i := 0; i < n; i++ {
		r := <-ch
		results = append(results, r)
		if r.status == "unsat" && !opts.AllSolvers && !o.WantSat {
			raceCancel() // first proof wins; stop the other solvers
			break
		}
	}
	// verdict: unsat from any solver discharges; in AllSolvers mode a sat from another solver is a disagreement
	var unsat, sat *result
	for i := range results {
		r := &results[i]
		if r.status == "unsat" && unsat == nil {
			unsat = r
		}
		if r.status == "sat" && sat == nil {
			sat = r
		}
	}
	var notes []string
	for _, r := range results {
		notes = append(notes, fmt.Sprintf("%s=%s(%dms)", r.solver, r.status, r.ms))
	}
	o.Output = strings.Join(notes, " ")
	switch {
	case o.WantSat:
		if sat != nil {
			o.Status, o.Solver, o.Millis = "sat", sat.solver, sat.ms
		} else if unsat != nil {
			o.Status, o.Solver, o.Millis = "unsat", unsat.solver, unsat.ms
		}
	case unsat != nil && sat != nil:
		o.Status, o.Solver = "disagree", unsat.solver+" vs "+sat.solver
	case unsat != nil:
		o.Status, o.Solver, o.Millis = "unsat", unsat.solver, unsat.ms
	case sat != nil:
		o.Status, o.Solver, o.Millis = "sat", sat.solver, sat.ms
	default:
		best := results[0]
		for _, r := range results {
			if strings.HasPrefix(r.status, "error") {
				best = r
			}
		}
		o.Status, o.Solver, o.Millis = best.status, best.solver, best.ms
	}
}

func (o *Obl) discharged() bool {
	if o.WantSat {
		return o.Status != "unsat" && !strings.HasPrefix(o.Status, "error")
	}
	return o.Status == "unsat"
}

// ---------------------------------------------------------------- skolemisation and instantiation

var skCounter int
var skMu sync.Mutex

func freshSk(b *Term) *Term {
	skMu.Lock()
	skCounter++
	n := skCounter
	skMu.Unlock()
	name := strings.Trim(b.Op, "|")
	return Atom(smtName(fmt.Sprintf("sk!%s!%d", name, n)), b.S)
}

// skolemize replaces universally quantified variables at positive positions of a goal by fresh constants.
func skolemize(t *Term, positive bool, sks *[]*Term) *Term {
	switch {
	case t.Op == "forall" && positive, t.Op == "exists" && !positive:
		m := map[string]*Term{}
		for _, b := range t.Bound {
			s := freshSk(b)
			m[b.Op] = s
			*sks = append(*sks, s)
		}
		return skolemize(t.Args[0].subst(m), positive, sks)
	case t.Op == "and" || t.Op == "or":
		args := make([]*Term, len(t.Args))
		for i, a := range t.Args {
			args[i] = skolemize(a, positive, sks)
		}
		return App(t.Op, SBool, args...)
	case t.Op == "=>" && len(t.Args) == 2:
		return App("=>", SBool, skolemize(t.Args[0], !positive, sks), skolemize(t.Args[1], positive, sks))
	case t.Op == "not" && len(t.Args) == 1:
		return App("not", SBool, skolemize(t.Args[0], !positive, sks))
	}
	return t
}

func localIndexFact(t *Term) bool {
	if len(t.Bound) != 1 {
		return false
	}
	return strings.HasPrefix(strings.Trim(t.Bound[0].Op, "|"), "k!")
}

// instantiate returns instances of the positive universal quantifiers of hypothesis h at the given constants.
func instantiate(h *Term, sks []*Term, limit int, withPatterns bool) []*Term {
	var out []*Term
	var rec func(t *Term, wrap func(*Term) *Term)
	rec = func(t *Term, wrap func(*Term) *Term) {
		switch {
		case t.Op == "forall" && len(t.Pats) > 0 && !withPatterns && !localIndexFact(t):
			// engine axioms carry triggers and are left to E-matching (except the per-statement element facts of
			// append/copy/modifies, whose single index variable is instantiated at the goal's index terms)
		case t.Op == "forall":
			// candidates per bound variable
			combos := []map[string]*Term{{}}
			for _, b := range t.Bound {
				var next []map[string]*Term
				// prefer skolems that stem from a variable of the same name (same clause in another state)
				cands := sks
				var named []*Term
				bn := baseVarName(b.Op)
				for _, s := range sks {
					if strings.HasPrefix(strings.Trim(s.Op, "|"), "sk!") && baseVarName(strings.TrimPrefix(strings.Trim(s.Op, "|"), "sk!")) == bn && sameSort(s.S, b.S) {
						named = append(named, s)
					}
				}
				if len(named) > 0 && !withPatterns {
					cands = named // int mode only: E-matching finds the other instances
				}
				for _, c := range combos {
					for _, s := range cands {
						if !sameSort(s.S, b.S) {
							continue
						}
						m := map[string]*Term{}
						for k, v := range c {
							m[k] = v
						}
						m[b.Op] = s
						next = append(next, m)
						if len(next) > limit {
							break
						}
					}
				}
				combos = next
				if len(combos) == 0 {
					return
				}
			}
			for _, m := range combos {
				body := t.Args[0].subst(m)
				out = append(out, wrap(body))
				rec(body, wrap)
			}
		case t.Op == "and":
			for _, a := range t.Args {
				rec(a, wrap)
			}
		case t.Op == "=>" && len(t.Args) == 2:
			ante := t.Args[0]
			rec(t.Args[1], func(x *Term) *Term { return wrap(Implies(ante, x)) })
		}
	}
	rec(h, func(x *Term) *Term { return x })
	return out
}

// groundPart keeps the quantifier-free conjuncts of a hypothesis (weakening it, which is sound for a proof).
func groundPart(t *Term) *Term {
	if !hasQuant(t) {
		return t
	}
	switch {
	case t.Op == "and":
		var parts []*Term
		for _, a := range t.Args {
			if g := groundPart(a); !g.IsTrue() {
				parts = append(parts, g)
			}
		}
		return And(parts...)
	case t.Op == "=>" && len(t.Args) == 2 && !hasQuant(t.Args[0]):
		g := groundPart(t.Args[1])
		if g.IsTrue() {
			return TTrue
		}
		return Implies(t.Args[0], g)
	}
	return TTrue
}

func hasQuant(t *Term) bool {
	found := false
	t.walk(func(x *Term) {
		if x.Op == "forall" || x.Op == "exists" {
			found = true
		}
	})
	return found
}

// oblQuery renders the assertions specific to one obligation (inside a push scope or a stand-alone file).
func (vc *VC) oblQuery(o *Obl) string {
	var sb strings.Builder
	for _, f := range o.Local {
		fmt.Fprintf(&sb, "(assert %s)\n", f.String())
	}
	fmt.Fprintf(&sb, "(assert %s)\n", o.Guard.String())
	if o.WantSat {
		return sb.String()
	}
	var sks []*Term
	goal := skolemize(o.Cond, true, &sks)
	for _, s := range sks {
		fmt.Fprintf(&sb, "(declare-const %s %s)\n", s.Op, s.S.String())
	}
	if len(sks) == 0 && vc.isBV() {
		// a quantifier-free goal in bv mode: instantiate the hypotheses at the small literal offsets the goal adds to
		// other terms (x + 3 suggests the instance k := 3 of a hypothesis about x + k) and at 0
		seenL := map[string]bool{}
		var lits []*Term
		var walkL func(t *Term)
		walkL = func(t *Term) {
			if t.Op == "forall" || t.Op == "exists" || len(lits) >= 20 {
				return
			}
			if t.Op == "bvadd" && len(t.Args) == 2 {
				for _, a := range t.Args {
					if v, ok := litIdx(a); ok && a.S.K == KBV && v >= 0 && v <= 64 && len(a.Args) == 0 && !seenL[a.String()] {
						seenL[a.String()] = true
						lits = append(lits, a)
						if !seenL["zero"+a.S.Key()] {
							seenL["zero"+a.S.Key()] = true
							lits = append(lits, BVLit(big.NewInt(0), a.S.W))
						}
					}
				}
			}
			for _, a := range t.Args {
				walkL(a)
			}
		}
		walkL(goal)
		n := 0
		for _, f := range vc.facts[:o.NFacts] {
			if len(lits) == 0 {
				break
			}
			if !hasQuant(f) {
				continue
			}
			for _, inst := range instantiate(f, lits, 24, true) {
				fmt.Fprintf(&sb, "(assert %s)\n", inst.String())
				n++
				if n > 400 {
					break
				}
			}
		}
	}
	if len(sks) > 0 || !vc.isBV() {
		// besides the skolem constants themselves, instantiate at the additive index terms built from them
		isSk := map[string]bool{}
		for _, s := range sks {
			isSk[s.Op] = true
		}
		seen := map[string]bool{}
		var extra []*Term
		var mentions func(t *Term) bool
		mentions = func(t *Term) bool {
			if len(t.Args) == 0 {
				return isSk[t.Op]
			}
			for _, a := range t.Args {
				if mentions(a) {
					return true
				}
			}
			return false
		}
		var collect func(t *Term)
		collect = func(t *Term) {
			if t.Op == "forall" || t.Op == "exists" {
				return
			}
			if len(t.Args) > 0 && (t.Op == "bvadd" || t.Op == "bvsub" || t.Op == "+" || t.Op == "-") && (t.S.K == KInt || t.S.K == KBV) && mentions(t) {
				k := t.String()
				if !seen[k] && len(extra) < 14 && len(k) < 3000 {
					seen[k] = true
					extra = append(extra, t)
				}
			}
			// word indices derived from bit indices: d = x/2^k, and its neighbours d+1, d-1
			if len(t.Args) == 2 && (t.Op == "bvsdiv" || t.Op == "bvudiv" || t.Op == "div") && (t.S.K == KInt || t.S.K == KBV) && mentions(t) {
				k := t.String()
				if !seen[k] && len(extra) < 14 && len(k) < 3000 {
					seen[k] = true
					extra = append(extra, t)
					var one *Term
					var plus, minus string
					if t.S.K == KBV {
						one = BVLit(big.NewInt(1), t.S.W)
						plus, minus = "bvadd", "bvsub"
					} else {
						one = IntLit64(1)
						plus, minus = "+", "-"
					}
					extra = append(extra, App(plus, t.S, t, one), App(minus, t.S, t, one))
				}
			}
			for _, a := range t.Args {
				collect(a)
			}
		}
		if vc.isBV() {
			collect(goal)
		} else {
			// int mode: only the index terms at which the goal reads arrays (E-matching does the rest)
			relax := false // while walking definitions of constants the goal mentions, indexes need not mention a skolem
			// integers converted to reals are instantiation candidates only in goals that convert a term over a skolem
			// (cell coordinates such as i/2); elsewhere they would only add irrelevant instances
			realIdx := false
			goal.walk(func(x *Term) {
				if x.Op == "to_real" && len(x.Args) == 1 && len(x.Args[0].Args) > 0 && mentions(x.Args[0]) {
					realIdx = true
				}
			})
			var idx func(t *Term)
			idx = func(t *Term) {
				if t.Op == "forall" || t.Op == "exists" {
					return
				}
				if t.Op == "select" && len(t.Args) == 2 && t.Args[1].S.K == KInt && (mentions(t.Args[1]) || len(isSk) == 0 || relax) {
					ixT := t.Args[1]
					cands := []*Term{ixT}
					if len(ixT.Args) == 0 {
						// a named index (ix = off + i): decompose its definition
						if d, ok := vc.defMap(o.NFacts)[ixT.Op]; ok {
							ixT = d
						}
					}
					for c := ixT; c.Op == "+" && len(c.Args) == 2; c = c.Args[1] {
						cands = append(cands, c.Args[1])
					}
					for _, c := range cands {
						k := c.String()
						if _, isLit := intLitVal(c); !isLit && !isSk[c.Op] && !seen[k] && len(extra) < 8 && len(k) < 300 {
							seen[k] = true
							extra = append(extra, c)
						}
					}
				}
				if realIdx && t.Op == "to_real" && len(t.Args) == 1 && t.Args[0].S.K == KInt {
					// an integer the goal converts to a real (a cell index such as i/2): quantified hypotheses over
					// cell coordinates are instantiated there
					c := t.Args[0]
					k := c.String()
					if _, isLit := intLitVal(c); !isLit && !isSk[c.Op] && !seen[k] && len(extra) < 10 && len(k) < 300 {
						seen[k] = true
						extra = append(extra, c)
					}
				}
				for _, a := range t.Args {
					idx(a)
				}
			}
			idx(goal)
			// the goal may mention values only through named constants (t28 = patterns[i]): also look at the index terms in
			// the definitions of the constants it mentions (two levels)
			defs := vc.defMap(o.NFacts)
			seenC := map[string]bool{}
			var frontier []*Term
			var atoms func(t *Term)
			atoms = func(t *Term) {
				if len(t.Args) == 0 {
					if d, ok := defs[t.Op]; ok && !seenC[t.Op] {
						seenC[t.Op] = true
						frontier = append(frontier, d)
					}
					return
				}
				for _, a := range t.Args {
					atoms(a)
				}
			}
			atoms(goal)
			relax = true
			for level := 0; level < 2 && len(frontier) > 0; level++ {
				cur := frontier
				frontier = nil
				for _, d := range cur {
					if len(d.String()) < 2000 {
						idx(d)
						atoms(d)
					}
				}
			}
		}
		sks = append(sks, extra...)
		n := 0
		for _, f := range vc.facts[:o.NFacts] {
			if !hasQuant(f) {
				continue
			}
			for _, inst := range instantiate(f, sks, 24, vc.isBV()) {
				fmt.Fprintf(&sb, "(assert %s)\n", inst.String())
				n++
				if n > 400 {
					break
				}
			}
		}
	}
	fmt.Fprintf(&sb, "(assert (not %s))\n", goal.String())
	return sb.String()
}

// defMap: named constants with a defining fact (= c term) among the first n facts.
func (vc *VC) defMap(n int) map[string]*Term {
	if vc.defCache != nil && vc.defCacheN == n {
		return vc.defCache
	}
	m := map[string]*Term{}
	for _, f := range vc.facts[:n] {
		if f.Op == "=" && len(f.Args) == 2 && len(f.Args[0].Args) == 0 && len(f.Args[1].Args) > 0 {
			if _, isLit := intLitVal(f.Args[0]); !isLit {
				m[f.Args[0].Op] = f.Args[1]
			}
		}
	}
	vc.defCache, vc.defCacheN = m, n
	return m
}

// baseVarName strips the uniquifying suffixes of bound-variable / skolem names: "x2!q3!17" -> "x2".
func baseVarName(n string) string {
	n = strings.Trim(n, "|")
	if i := strings.Index(n, "!"); i >= 0 {
		return n[:i]
	}
	return n
}
