package main

import (
	"fmt"
	"go/token"
	"go/types"
	"os"
	"sort"
	"strings"

	"golang.org/x/tools/go/ssa"
)

// C18 frame check: no code reachable from a reader/writer entry point writes to an object that is reachable
// from a package-level variable. This is a whole-module, flow-insensitive "global-reachability taint":
//   - a value loaded from a package-level variable is global-reachable (GR);
//   - GR propagates through field/element addressing, loads, conversions, slicing, phis and local variables,
//     through struct fields and slice/array element kinds (a GR value stored into field F makes every load of F GR),
//     through parameters (a GR argument makes the callee's parameter GR) and results;
//   - an obligation is generated for every store, map update, append-in-place/copy destination and channel-free
//     write site in a reachable function; it is discharged when the written object is not GR.
// Package initialisers (init and package-level var initialisers) are the only code allowed to write GR objects.

type frameSite struct {
	fn   *ssa.Function
	pos  token.Pos
	what string
	ok   bool
}

type frameAnalysis struct {
	eng          *Engine
	reach        map[*ssa.Function]bool
	order        []*ssa.Function
	taint        map[ssa.Value]bool
	fieldT       map[string]bool // tainted struct fields ("F!..."), element kinds ("E!...") and cells ("P!...")
	localT       map[*ssa.Alloc]bool
	retT         map[*ssa.Function]bool
	changed      bool
	entries      []*ssa.Function
	emptyGlobals map[*ssa.Global]bool
	freshCache   map[*ssa.Alloc]bool
}

func isRefType(t types.Type) bool {
	switch u := t.Underlying().(type) {
	case *types.Pointer, *types.Slice, *types.Map, *types.Chan, *types.Interface, *types.Signature:
		return true
	case *types.Struct:
		for i := 0; i < u.NumFields(); i++ {
			if isRefType(u.Field(i).Type()) {
				return true
			}
		}
	case *types.Array:
		return isRefType(u.Elem())
	}
	return false
}

func (eng *Engine) entryPoints() []*ssa.Function {
	var out []*ssa.Function
	for _, fn := range eng.AllFuncs {
		if fn.Signature.Recv() == nil {
			continue
		}
		n := fn.Name()
		if !(strings.HasPrefix(n, "Decode") || strings.HasPrefix(n, "Encode") || n == "DecodeRow" || n == "DecodeMultiple" || strings.HasPrefix(n, "DecodeMultiple")) {
			continue
		}
		if !token.IsExported(n) {
			continue
		}
		out = append(out, fn)
	}
	sort.Slice(out, func(i, j int) bool { return out[i].String() < out[j].String() })
	return out
}

func (fa *frameAnalysis) callees(c *ssa.CallCommon) []*ssa.Function {
	if c.IsInvoke() {
		if !fa.eng.inModule(c.Method.Pkg()) {
			return nil
		}
		return fa.eng.implementers(c.Method)
	}
	if callee := c.StaticCallee(); callee != nil {
		if callee.Blocks != nil && fa.eng.inModule(pkgOf(callee)) {
			return []*ssa.Function{callee}
		}
		return nil
	}
	// function values: every module function of the same signature whose address is taken (approximation:
	// the functions stored in the func-typed fields of the module, i.e. any function with identical signature)
	var out []*ssa.Function
	sig := c.Signature()
	for _, f := range fa.eng.AllFuncs {
		if f.Signature.Recv() == nil && types.Identical(f.Signature, sig) {
			out = append(out, f)
		}
	}
	return out
}

func (fa *frameAnalysis) computeReach() {
	fa.reach = map[*ssa.Function]bool{}
	var work []*ssa.Function
	for _, e := range fa.entries {
		if !fa.reach[e] {
			fa.reach[e] = true
			work = append(work, e)
		}
	}
	for len(work) > 0 {
		fn := work[len(work)-1]
		work = work[:len(work)-1]
		fa.order = append(fa.order, fn)
		add := func(f *ssa.Function) {
			if f != nil && f.Blocks != nil && !fa.reach[f] && fa.eng.inModule(pkgOf(f)) {
				fa.reach[f] = true
				work = append(work, f)
			}
		}
		for _, b := range fn.Blocks {
			for _, in := range b.Instrs {
				switch in := in.(type) {
				case ssa.CallInstruction:
					for _, c := range fa.callees(in.Common()) {
						add(c)
					}
				case *ssa.MakeClosure:
					add(in.Fn.(*ssa.Function))
				}
			}
		}
	}
	sort.Slice(fa.order, func(i, j int) bool { return fa.order[i].String() < fa.order[j].String() })
}

func (fa *frameAnalysis) set(v ssa.Value) {
	if v == nil || fa.taint[v] {
		return
	}
	if _, isConst := v.(*ssa.Const); isConst {
		return
	}
	if !isRefType(v.Type()) {
		return
	}
	fa.taint[v] = true
	fa.changed = true
}

func (fa *frameAnalysis) setKey(k string) {
	if k != "" && !fa.fieldT[k] {
		fa.fieldT[k] = true
		fa.changed = true
	}
}

// addrKey: the memory kind a store/load through address value a touches, and the base object value.
func addrKey(a ssa.Value) (key string, base ssa.Value) {
	switch x := a.(type) {
	case *ssa.FieldAddr:
		pt := x.X.Type().Underlying().(*types.Pointer)
		return fieldKeyName(pt.Elem(), x.Field), x.X
	case *ssa.IndexAddr:
		switch xt := x.X.Type().Underlying().(type) {
		case *types.Slice:
			return elemKeyName(xt.Elem()), x.X
		case *types.Pointer:
			return elemKeyName(xt.Elem().Underlying().(*types.Array).Elem()), x.X
		}
	case *ssa.Global:
		return globalKeyName(x), x
	case *ssa.Alloc:
		return "", x
	}
	if pt, ok := a.Type().Underlying().(*types.Pointer); ok {
		return cellKeyName(pt.Elem()), a
	}
	return "", a
}

func (fa *frameAnalysis) propagate(fn *ssa.Function) {
	for _, b := range fn.Blocks {
		for _, in := range b.Instrs {
			switch in := in.(type) {
			case *ssa.UnOp:
				if in.Op != token.MUL {
					continue
				}
				switch a := in.X.(type) {
				case *ssa.Global:
					if !fa.emptyGlobals[a] {
						fa.set(in)
					}
				case *ssa.Alloc:
					if fa.localT[a] {
						fa.set(in)
					}
				default:
					key, base := addrKey(in.X)
					kindT := fa.fieldT[key]
					if kindT && fa.freshContainerElem(fn, in.X) {
						kindT = false // element of a container that this function allocated and filled with fresh rows only
					}
					if fa.taint[base] || kindT || fa.taint[in.X] {
						fa.set(in)
					}
				}
			case *ssa.Store:
				switch a := in.Addr.(type) {
				case *ssa.Alloc:
					if fa.taint[in.Val] && !fa.localT[a] {
						fa.localT[a] = true
						fa.changed = true
					}
				default:
					if fa.taint[in.Val] {
						key, _ := addrKey(in.Addr)
						if os.Getenv("GOVC_FRAME_DEBUG") != "" && !fa.fieldT[key] {
							fmt.Println("taint key", key, "by store in", shortFuncName(fn), fa.eng.Fset.Position(in.Pos()))
						}
						fa.setKey(key)
					}
				}
			case *ssa.FieldAddr:
				if fa.taint[in.X] {
					fa.set(in)
				}
			case *ssa.IndexAddr:
				if fa.taint[in.X] {
					fa.set(in)
				}
			case *ssa.Field:
				if fa.taint[in.X] {
					fa.set(in)
				}
			case *ssa.Index:
				if fa.taint[in.X] {
					fa.set(in)
				}
			case *ssa.Slice:
				if fa.taint[in.X] {
					fa.set(in)
				}
			case *ssa.ChangeType:
				if fa.taint[in.X] {
					fa.set(in)
				}
			case *ssa.ChangeInterface:
				if fa.taint[in.X] {
					fa.set(in)
				}
			case *ssa.MakeInterface:
				if fa.taint[in.X] {
					fa.set(in)
				}
			case *ssa.TypeAssert:
				if fa.taint[in.X] {
					fa.set(in)
				}
			case *ssa.Extract:
				if fa.taint[in.Tuple] {
					fa.set(in)
				}
			case *ssa.Phi:
				for _, e := range in.Edges {
					if fa.taint[e] {
						fa.set(in)
					}
				}
			case *ssa.Lookup:
				if fa.taint[in.X] {
					fa.set(in)
				}
			case *ssa.Range:
				if fa.taint[in.X] {
					fa.set(in)
				}
			case *ssa.Next:
				if fa.taint[in.Iter] {
					fa.set(in)
				}
			case *ssa.MapUpdate:
				if fa.taint[in.Value] || fa.taint[in.Key] {
					fa.setKey("M!" + typeKey(in.Map.Type()))
				}
			case *ssa.Return:
				for _, r := range in.Results {
					if fa.taint[r] && !fa.retT[fn] {
						fa.retT[fn] = true
						fa.changed = true
					}
				}
			case *ssa.Call:
				c := in.Common()
				if b, ok := c.Value.(*ssa.Builtin); ok {
					if b.Name() == "append" && (fa.taint[c.Args[0]] || fa.taint[c.Args[1]]) {
						fa.set(in)
					}
					continue
				}
				cs := fa.callees(c)
				args := c.Args
				if c.IsInvoke() {
					args = append([]ssa.Value{c.Value}, c.Args...)
				}
				for _, callee := range cs {
					for i, a := range args {
						if fa.taint[a] && i < len(callee.Params) {
							fa.set(callee.Params[i])
						}
					}
					if fa.retT[callee] {
						fa.set(in)
					}
				}
				if len(cs) == 0 {
					// external call: results derived from GR arguments are GR (e.g. identity-like helpers)
					for _, a := range args {
						if fa.taint[a] && isRefType(in.Type()) {
							fa.set(in)
						}
					}
				}
			}
		}
	}
}

func (fa *frameAnalysis) sites() []*frameSite {
	var out []*frameSite
	for _, fn := range fa.order {
		if fn.Name() == "init" || strings.HasPrefix(fn.Name(), "init#") || strings.HasPrefix(fn.Name(), "init$") {
			continue
		}
		for _, b := range fn.Blocks {
			for _, in := range b.Instrs {
				switch in := in.(type) {
				case *ssa.Store:
					switch a := in.Addr.(type) {
					case *ssa.Alloc:
						continue
					case *ssa.Global:
						out = append(out, &frameSite{fn, in.Pos(), "store to package-level variable " + a.Name(), false})
					default:
						_, base := addrKey(in.Addr)
						// walk nested field addresses back to the object pointer
						for {
							if fa2, ok := base.(*ssa.FieldAddr); ok {
								base = fa2.X
								continue
							}
							if ia, ok := base.(*ssa.IndexAddr); ok {
								base = ia.X
								continue
							}
							break
						}
						if al, ok := base.(*ssa.Alloc); ok && !al.Heap {
							continue
						}
						out = append(out, &frameSite{fn, in.Pos(), "store through " + base.Name() + " (" + base.Type().String() + ")", !fa.taint[base]})
					}
				case *ssa.MapUpdate:
					out = append(out, &frameSite{fn, in.Pos(), "map update of " + in.Map.Name(), !fa.taint[in.Map]})
				case *ssa.Call:
					c := in.Common()
					if b, ok := c.Value.(*ssa.Builtin); ok {
						switch b.Name() {
						case "append":
							// append may write in place into the backing array of its first argument
							out = append(out, &frameSite{fn, in.Pos(), "append to " + c.Args[0].Name(), !fa.taint[c.Args[0]]})
						case "copy", "delete":
							out = append(out, &frameSite{fn, in.Pos(), b.Name() + " into " + c.Args[0].Name(), !fa.taint[c.Args[0]]})
						}
					}
				}
			}
		}
	}
	return out
}

func runFrameCheck(eng *Engine) (sites []*frameSite, fa *frameAnalysis) {
	fa = &frameAnalysis{eng: eng, taint: map[ssa.Value]bool{}, fieldT: map[string]bool{}, localT: map[*ssa.Alloc]bool{}, retT: map[*ssa.Function]bool{}}
	fa.entries = eng.entryPoints()
	fa.computeReach()
	fa.findEmptyGlobals()
	for round := 0; round < 60; round++ {
		fa.changed = false
		// taint flows through every function of the module (constructors are not reachable from the entry points
		// but decide what the instances hold); write sites are only checked in the reachable functions
		for _, fn := range fa.eng.AllFuncs {
			fa.propagate(fn)
		}
		if !fa.changed {
			break
		}
	}
	return fa.sites(), fa
}

func (s *frameSite) String(eng *Engine) string {
	p := eng.Fset.Position(s.pos)
	return fmt.Sprintf("%s %s:%d %s", shortFuncName(s.fn), strings.TrimPrefix(p.Filename, eng.RepoDir+"/"), p.Line, s.what)
}

// findEmptyGlobals: a package-level slice that is only ever assigned (in a package initialiser) a slice of a
// zero-length array has no element storage at all: nothing can be written through it and append must reallocate.
func (fa *frameAnalysis) findEmptyGlobals() {
	fa.emptyGlobals = map[*ssa.Global]bool{}
	stores := map[*ssa.Global][]ssa.Value{}
	for _, fn := range fa.eng.AllFuncs {
		for _, b := range fn.Blocks {
			for _, in := range b.Instrs {
				if st, ok := in.(*ssa.Store); ok {
					if g, ok := st.Addr.(*ssa.Global); ok {
						stores[g] = append(stores[g], st.Val)
					}
				}
			}
		}
	}
	for _, sp := range fa.eng.SPkgs {
		if ini := sp.Func("init"); ini != nil {
			for _, b := range ini.Blocks {
				for _, in := range b.Instrs {
					if st, ok := in.(*ssa.Store); ok {
						if g, ok := st.Addr.(*ssa.Global); ok {
							stores[g] = append(stores[g], st.Val)
						}
					}
				}
			}
		}
	}
	for g, vals := range stores {
		if _, isSlice := g.Type().(*types.Pointer).Elem().Underlying().(*types.Slice); !isSlice {
			continue
		}
		all := len(vals) > 0
		for _, v := range vals {
			sl, ok := v.(*ssa.Slice)
			if !ok {
				all = false
				break
			}
			pt, ok := sl.X.Type().Underlying().(*types.Pointer)
			if !ok {
				all = false
				break
			}
			at, ok := pt.Elem().Underlying().(*types.Array)
			if !ok || at.Len() != 0 {
				all = false
				break
			}
		}
		if all {
			fa.emptyGlobals[g] = true
		}
	}
}

// freshContainerElem: addr is &L[i] where L is a local variable of this function that only ever holds slices made
// here (make) whose elements are only ever assigned freshly made slices, and that is not handed to any call.
func (fa *frameAnalysis) freshContainerElem(fn *ssa.Function, addr ssa.Value) bool {
	ia, ok := addr.(*ssa.IndexAddr)
	if !ok {
		return false
	}
	ld, ok := ia.X.(*ssa.UnOp)
	if !ok || ld.Op != token.MUL {
		return false
	}
	L, ok := ld.X.(*ssa.Alloc)
	if !ok || L.Heap {
		return false
	}
	if fa.freshCache == nil {
		fa.freshCache = map[*ssa.Alloc]bool{}
	}
	if r, ok := fa.freshCache[L]; ok {
		return r
	}
	res := true
	isMake := func(v ssa.Value) bool {
		_, ok := v.(*ssa.MakeSlice)
		return ok
	}
	for _, ref := range *L.Referrers() {
		switch r := ref.(type) {
		case *ssa.Store:
			if r.Addr == ssa.Value(L) && !isMake(r.Val) {
				res = false
			}
		case *ssa.UnOp:
			// every use of the loaded container value: indexing, len/cap, range; element stores must store fresh rows
			for _, use := range *r.Referrers() {
				switch u := use.(type) {
				case *ssa.IndexAddr:
					for _, eu := range *u.Referrers() {
						if st, ok := eu.(*ssa.Store); ok && st.Addr == ssa.Value(u) && !isMake(st.Val) {
							res = false
						}
					}
				case *ssa.Call:
					if b, ok := u.Common().Value.(*ssa.Builtin); !ok || (b.Name() != "len" && b.Name() != "cap") {
						res = false
					}
				case *ssa.DebugRef, *ssa.Range:
				case *ssa.Store:
					// copied into the (unnamed) result slot and returned from there
					ra, ok := u.Addr.(*ssa.Alloc)
					if !ok || ra.Heap || u.Val != ssa.Value(r) {
						res = false
						break
					}
					for _, rr := range *ra.Referrers() {
						switch x := rr.(type) {
						case *ssa.Store:
						case *ssa.UnOp:
							for _, xu := range *x.Referrers() {
								if _, isRet := xu.(*ssa.Return); !isRet {
									res = false
								}
							}
						case *ssa.DebugRef:
						default:
							res = false
						}
					}
				case *ssa.Return:
					// returned to the caller: still a container of fresh rows
				default:
					res = false
				}
			}
		case *ssa.DebugRef:
		default:
			res = false
		}
	}
	fa.freshCache[L] = res
	return res
}
