package main

import (
	"go/token"
	"go/types"
	"sort"
	"strings"
	"sync"

	"golang.org/x/tools/go/ssa"
)

// Effect summarises which heap components a function may write (transitively).
type Effect struct {
	Writes  map[string]bool
	Allocs  bool
	Unknown bool // calls something whose effects are unknown (closures, function values)
	// for the C18 frame check: writes whose target object may be reachable from a package-level variable
	GlobalWrites map[string]string // description -> position
}

type keyType struct {
	kind  string // F, E, P, G
	t     types.Type
	field int
	g     *ssa.Global
}

func fieldKeyName(structT types.Type, i int) string {
	st := structT.Underlying().(*types.Struct)
	return "F!" + typeKey(structT) + "!" + st.Field(i).Name()
}

func elemKeyName(elemT types.Type) string {
	key := "E!" + typeKey(elemT.Underlying())
	if n, ok := elemT.(*types.Named); ok {
		if _, isStruct := n.Underlying().(*types.Struct); isStruct {
			key = "E!" + typeKey(elemT)
		}
	}
	return key
}

func cellKeyName(t types.Type) string { return "P!" + typeKey(t.Underlying()) }

func globalKeyName(g *ssa.Global) string {
	return "G!" + strings.TrimPrefix(g.Pkg.Pkg.Path(), modulePath) + "." + g.Name()
}

func (eng *Engine) regKey(key string, kt keyType) {
	if eng.keyTypes == nil {
		eng.keyTypes = map[string]keyType{}
	}
	if _, ok := eng.keyTypes[key]; !ok {
		eng.keyTypes[key] = kt
	}
}

func (eng *Engine) moduleFunctions() []*ssa.Function {
	var out []*ssa.Function
	seen := map[*ssa.Function]bool{}
	var add func(f *ssa.Function)
	add = func(f *ssa.Function) {
		if f == nil || seen[f] || f.Blocks == nil {
			return
		}
		seen[f] = true
		out = append(out, f)
		for _, a := range f.AnonFuncs {
			add(a)
		}
	}
	var paths []string
	for p := range eng.SPkgs {
		paths = append(paths, p)
	}
	sort.Strings(paths)
	for _, p := range paths {
		sp := eng.SPkgs[p]
		var names []string
		for n := range sp.Members {
			names = append(names, n)
		}
		sort.Strings(names)
		for _, n := range names {
			switch m := sp.Members[n].(type) {
			case *ssa.Function:
				add(m)
			case *ssa.Type:
				for _, T := range []types.Type{m.Type(), types.NewPointer(m.Type())} {
					ms := eng.Prog.MethodSets.MethodSet(T)
					for i := 0; i < ms.Len(); i++ {
						add(eng.Prog.MethodValue(ms.At(i)))
					}
				}
			}
		}
	}
	return out
}

func (eng *Engine) computeEffects() {
	eng.Effects = map[*ssa.Function]*Effect{}
	fns := eng.moduleFunctions()
	eng.AllFuncs = fns
	type callRef struct {
		callee *ssa.Function
		method *types.Func
	}
	calls := map[*ssa.Function][]callRef{}
	for _, fn := range fns {
		eff := &Effect{Writes: map[string]bool{}, GlobalWrites: map[string]string{}}
		eng.Effects[fn] = eff
		cells := map[*ssa.Alloc]bool{}
		for _, b := range fn.Blocks {
			for _, in := range b.Instrs {
				if a, ok := in.(*ssa.Alloc); ok && !a.Heap && addrOnlyUses(a, 0) {
					cells[a] = true
				}
			}
		}
		root := func(v ssa.Value) *ssa.Alloc {
			for i := 0; i < 8; i++ {
				switch x := v.(type) {
				case *ssa.Alloc:
					if cells[x] {
						return x
					}
					return nil
				case *ssa.FieldAddr:
					v = x.X
				case *ssa.IndexAddr:
					v = x.X
				default:
					return nil
				}
			}
			return nil
		}
		allocKeys := func(et types.Type) {
			switch u := et.Underlying().(type) {
			case *types.Struct:
				for i := 0; i < u.NumFields(); i++ {
					k := fieldKeyName(et, i)
					eng.regKey(k, keyType{kind: "F", t: et, field: i})
					eff.Writes[k] = true
				}
			case *types.Array:
				k := elemKeyName(u.Elem())
				eng.regKey(k, keyType{kind: "E", t: u.Elem()})
				eff.Writes[k] = true
			default:
				k := cellKeyName(et)
				eng.regKey(k, keyType{kind: "P", t: et})
				eff.Writes[k] = true
			}
		}
		for _, b := range fn.Blocks {
			for _, in := range b.Instrs {
				switch in := in.(type) {
				case *ssa.Alloc:
					if !cells[in] {
						eff.Allocs = true
						allocKeys(in.Type().(*types.Pointer).Elem())
					}
				case *ssa.MakeSlice:
					eff.Allocs = true
					et := in.Type().Underlying().(*types.Slice).Elem()
					k := elemKeyName(et)
					eng.regKey(k, keyType{kind: "E", t: et})
					eff.Writes[k] = true
				case *ssa.MakeMap, *ssa.MakeInterface, *ssa.MakeClosure:
					eff.Allocs = true
				case *ssa.Convert:
					if isString(in.X.Type()) {
						if sl, ok := in.Type().Underlying().(*types.Slice); ok {
							eff.Allocs = true
							k := elemKeyName(sl.Elem())
							eng.regKey(k, keyType{kind: "E", t: sl.Elem()})
							eff.Writes[k] = true
						}
					}
				case *ssa.Store:
					if root(in.Addr) != nil {
						continue
					}
					switch ad := in.Addr.(type) {
					case *ssa.FieldAddr:
						cur := ad
						for {
							if inner, ok := cur.X.(*ssa.FieldAddr); ok {
								cur = inner
								continue
							}
							break
						}
						pt := cur.X.Type().Underlying().(*types.Pointer)
						k := fieldKeyName(pt.Elem(), cur.Field)
						eng.regKey(k, keyType{kind: "F", t: pt.Elem(), field: cur.Field})
						eff.Writes[k] = true
					case *ssa.IndexAddr:
						var et types.Type
						switch xt := ad.X.Type().Underlying().(type) {
						case *types.Slice:
							et = xt.Elem()
						case *types.Pointer:
							et = xt.Elem().Underlying().(*types.Array).Elem()
						}
						if et != nil {
							k := elemKeyName(et)
							eng.regKey(k, keyType{kind: "E", t: et})
							eff.Writes[k] = true
						}
					case *ssa.Global:
						k := globalKeyName(ad)
						eng.regKey(k, keyType{kind: "G", g: ad})
						eff.Writes[k] = true
					default:
						if pt, ok := in.Addr.Type().Underlying().(*types.Pointer); ok {
							allocKeys(pt.Elem())
						}
					}
				case *ssa.MapUpdate:
					eff.Writes["M!"+typeKey(in.Map.Type())] = true
				case ssa.CallInstruction:
					c := in.Common()
					if b, ok := c.Value.(*ssa.Builtin); ok {
						switch b.Name() {
						case "append", "copy":
							if sl, ok := c.Args[0].Type().Underlying().(*types.Slice); ok {
								k := elemKeyName(sl.Elem())
								eng.regKey(k, keyType{kind: "E", t: sl.Elem()})
								eff.Writes[k] = true
								eff.Allocs = true
							}
						case "delete":
							eff.Writes["M!"+typeKey(c.Args[0].Type())] = true
						}
						continue
					}
					if c.IsInvoke() {
						if eng.inModule(c.Method.Pkg()) {
							calls[fn] = append(calls[fn], callRef{method: c.Method})
						} else {
							eff.Allocs = true
						}
						continue
					}
					callee := c.StaticCallee()
					if callee == nil {
						// a call through a func-typed struct field: the functions ever stored into that field
						if impls := eng.fieldCallTargets(c); len(impls) > 0 {
							for _, f := range impls {
								calls[fn] = append(calls[fn], callRef{callee: f})
							}
							continue
						}
						eff.Unknown = true
						continue
					}
					if _, isClosure := c.Value.(*ssa.MakeClosure); isClosure {
						calls[fn] = append(calls[fn], callRef{callee: callee})
						continue
					}
					if callee.Blocks == nil || !eng.inModule(pkgOf(callee)) {
						eff.Allocs = true
						if externalWritesSlices(callee.String()) {
							for _, a := range c.Args {
								if sl, ok := a.Type().Underlying().(*types.Slice); ok {
									k := elemKeyName(sl.Elem())
									eng.regKey(k, keyType{kind: "E", t: sl.Elem()})
									eff.Writes[k] = true
								}
							}
						}
						continue
					}
					calls[fn] = append(calls[fn], callRef{callee: callee})
				}
			}
		}
	}
	// fixpoint
	changed := true
	for changed {
		changed = false
		for _, fn := range fns {
			eff := eng.Effects[fn]
			merge := func(o *Effect) {
				if o == nil {
					if !eff.Unknown {
						eff.Unknown = true
						changed = true
					}
					return
				}
				for k := range o.Writes {
					if !eff.Writes[k] {
						eff.Writes[k] = true
						changed = true
					}
				}
				if o.Allocs && !eff.Allocs {
					eff.Allocs = true
					changed = true
				}
				if o.Unknown && !eff.Unknown {
					eff.Unknown = true
					changed = true
				}
			}
			for _, cr := range calls[fn] {
				if cr.callee != nil {
					merge(eng.Effects[cr.callee])
				} else {
					for _, impl := range eng.implementers(cr.method) {
						merge(eng.Effects[impl])
					}
				}
			}
		}
	}
}

// fieldCallTargets: for a call through a func-typed field of a named struct, the functions stored into that field anywhere
// in the module (nil when the call has another shape or some store is not a named function).
func (eng *Engine) fieldCallTargets(c *ssa.CallCommon) []*ssa.Function {
	u, ok := c.Value.(*ssa.UnOp)
	if !ok || u.Op != token.MUL {
		return nil
	}
	fa, ok := u.X.(*ssa.FieldAddr)
	if !ok {
		return nil
	}
	pt, ok := fa.X.Type().Underlying().(*types.Pointer)
	if !ok {
		return nil
	}
	nt, ok := pt.Elem().(*types.Named)
	if !ok || nt.Obj().Pkg() == nil {
		return nil
	}
	stt, ok := nt.Underlying().(*types.Struct)
	if !ok {
		return nil
	}
	impls, err := eng.fieldImplsByKey(nt.Obj().Pkg().Path() + "." + nt.Obj().Name() + "." + stt.Field(fa.Field).Name())
	if err != nil {
		return nil
	}
	return impls
}

// implementers returns the module's concrete methods that may be the target of an interface method call (CHA).
var implMu sync.Mutex

func (eng *Engine) implementers(m *types.Func) []*ssa.Function {
	implMu.Lock()
	defer implMu.Unlock()
	if eng.implCache == nil {
		eng.implCache = map[string][]*ssa.Function{}
	}
	if r, ok := eng.implCache[m.FullName()]; ok {
		return r
	}
	sig := m.Type().(*types.Signature)
	recv := sig.Recv()
	var iface *types.Interface
	if recv != nil {
		iface, _ = recv.Type().Underlying().(*types.Interface)
	}
	var out []*ssa.Function
	for _, T := range eng.ConcreteTypes {
		if iface != nil && !types.Implements(T, iface) {
			continue
		}
		sel := eng.Prog.MethodSets.MethodSet(T).Lookup(m.Pkg(), m.Name())
		if sel == nil {
			continue
		}
		if f := eng.Prog.MethodValue(sel); f != nil && f.Blocks != nil {
			out = append(out, f)
		}
	}
	eng.implCache[m.FullName()] = out
	return out
}

func (eng *Engine) invokeEffects(m *types.Func) *Effect {
	eff := &Effect{Writes: map[string]bool{}}
	impls := eng.implementers(m)
	if len(impls) == 0 {
		eff.Allocs = true
		return eff
	}
	for _, f := range impls {
		o := eng.Effects[f]
		if o == nil {
			// wrapper / synthetic method: look through to the declared function
			eff.Unknown = true
			continue
		}
		for k := range o.Writes {
			eff.Writes[k] = true
		}
		eff.Allocs = eff.Allocs || o.Allocs
		eff.Unknown = eff.Unknown || o.Unknown
	}
	return eff
}

var _ = token.NoPos
