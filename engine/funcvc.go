package main

import (
	"fmt"
	"go/token"
	"go/types"
	"math/big"
	"strings"

	"golang.org/x/tools/go/ssa"
)

var bigOne = big.NewInt(1)

// buildFuncVC generates all obligations of one function against its contract (nil = safety only).
func (eng *Engine) buildFuncVC(fn *ssa.Function, con *Contract, disabled map[string]bool, noAuto bool) (vc *VC) {
	vc = newVC(eng, fn, con)
	vc.noAuto = noAuto
	if con != nil && con.Opts["realmul"] == "on" {
		vc.realMul = true // genuine non-linear multiplication in this function's VC
	}
	if disabled != nil {
		vc.disabledAuto = disabled
	}
	defer func() {
		if r := recover(); r != nil {
			if se, ok := r.(specErr); ok {
				vc.specErrs = append(vc.specErrs, string(se))
				return
			}
			panic(r)
		}
	}()
	if fn.Blocks == nil {
		vc.note("function has no body")
		return vc
	}
	if len(fn.FreeVars) > 0 {
		vc.note("closure body")
	}
	for _, b := range fn.Blocks {
		for _, in := range b.Instrs {
			if _, ok := in.(*ssa.Defer); ok {
				vc.note("defer in " + shortFuncName(fn))
			}
		}
	}
	entry := &State{guard: TTrue, locals: map[*ssa.Alloc]*Term{}, heap: map[string]*Term{}, base: "0"}
	vc.entry = entry
	vc.heapSorts["wm"] = SInt
	wm0 := vc.heapGet(entry, "wm")
	vc.facts = append(vc.facts, App(">=", SBool, wm0, IntLit64(0)))
	fr := vc.newFrame(fn, 0, true, nil)
	for i, p := range fn.Params {
		t := vc.declare("p!"+p.Name(), vc.sortOf(p.Type()))
		vc.params = append(vc.params, t)
		fr.vals[p] = &Val{T: t, Go: p.Type()}
		vc.facts = append(vc.facts, vc.typeInv(t, p.Type(), entry))
		if i == 0 && fn.Signature.Recv() != nil {
			if _, ok := p.Type().Underlying().(*types.Pointer); ok {
				vc.facts = append(vc.facts, Not(Eq(t, IntLit64(0))))
			}
		}
	}
	// preconditions
	if con != nil {
		vc.loadContractGlobals(con)
		env := vc.contractEnv(con, vc.params, nil, entry, entry)
		for _, rq := range con.Requires {
			t, err := env.trBool(rq.E)
			if err != nil {
				vc.specError(con, rq, err)
				continue
			}
			vc.flushUnfold()
			vc.facts = append(vc.facts, t)
		}
		vc.useLemmas(con, env, entry)
	}
	// vacuity: the assumptions so far must be satisfiable
	vc.obls = append(vc.obls, &Obl{Name: vc.funcName() + "#vacuity.requires", Kind: "vacuity", Guard: TTrue, Cond: TTrue, NFacts: len(vc.facts), WantSat: true,
		Pos: fn.Pos(), Desc: "preconditions and type invariants are satisfiable"})
	st := entry.clone()
	fr.run(st)
	if con != nil {
		for k := range con.Asserts {
			if !vc.assertHit[k] {
				vc.specErrs = append(vc.specErrs, fmt.Sprintf("%s:%d: binding: call site %s of an assert clause not found (code restructured?)", con.File, con.Line, k))
			}
		}
	}
	// returns
	var retGuards []*Term
	for _, r := range fr.rets {
		retGuards = append(retGuards, r.st.guard)
		vc.atReturn(fr, r)
	}
	if len(fr.rets) > 0 {
		// canary: some return must be reachable under all assumptions made on the way (guards against
		// contradictory invariants / callee contracts that would make every later obligation vacuous)
		vc.flushUnfold()
		vc.obls = append(vc.obls, &Obl{Name: vc.funcName() + "#vacuity.return-reachable", Kind: "vacuity", Guard: Or(retGuards...), Cond: TTrue,
			NFacts: len(vc.facts), WantSat: true, Pos: fn.Pos(), Desc: "a normal return is reachable under the assumed invariants and callee contracts"})
	}
	vc.flushUnfold()
	return vc
}

func (vc *VC) atReturn(fr *frame, r *retInfo) {
	con := vc.con
	if con == nil {
		return
	}
	var rts []*Term
	for _, v := range r.results {
		rts = append(rts, v.T)
	}
	env := vc.contractEnv(con, vc.params, rts, r.st, vc.entry)
	env.proving = true
	for i, en := range con.Ensures {
		t, err := env.trBool(en.E)
		if err != nil {
			vc.specError(con, en, err)
			continue
		}
		if o := vc.oblige("post", r.st, t, r.pos, fmt.Sprintf("postcondition %d (%s:%d): %s", i, en.File, en.Line, en.Src)); o != nil {
			o.Name = fmt.Sprintf("%s#post.%d@ret%d", vc.funcName(), i, vc.retIndex(fr, r))
			o.RetSt, o.RetVals = r.st, rts
		}
	}
	if len(con.Internal) > 0 {
		// internal postconditions may name locals of the function (their values at this return)
		ienv := vc.contractEnv(con, vc.params, rts, r.st, vc.entry)
		ienv.proving = true
		pos := r.pos
		ienv.local = func(nm string, s *State) *SVal { return fr.resolveLocal(nm, pos, s) }
		for i, en := range con.Internal {
			t, err := ienv.trBool(en.E)
			if err != nil {
				vc.specError(con, en, err)
				continue
			}
			if o := vc.oblige("post", r.st, t, r.pos, fmt.Sprintf("internal postcondition %d (%s:%d): %s", i, en.File, en.Line, en.Src)); o != nil {
				o.Name = fmt.Sprintf("%s#internal.%d@ret%d", vc.funcName(), i, vc.retIndex(fr, r))
				o.RetSt, o.RetVals = r.st, rts
			}
		}
	}
	if con.ModGiven {
		vc.frameObligations(fr, r, env)
	}
}

func (vc *VC) retIndex(fr *frame, r *retInfo) int {
	for i, x := range fr.rets {
		if x == r {
			return i
		}
	}
	return -1
}

type elemPlace struct{ arr, lo, hi *Term }

type framePlaces struct {
	fields map[string][]*Term
	elems  map[string][]elemPlace
}

// modifiesPlaces evaluates the modifies clause of the function under verification in its entry state.
func (vc *VC) modifiesPlaces() *framePlaces {
	if vc.places != nil {
		return vc.places
	}
	con := vc.con
	fp := &framePlaces{fields: map[string][]*Term{}, elems: map[string][]elemPlace{}}
	vc.places = fp
	oldEnv := vc.contractEnv(con, vc.params, nil, vc.entry, vc.entry)
	for _, m := range con.Modifies {
		func() {
			defer func() {
				if rr := recover(); rr != nil {
					if se, ok := rr.(specErr); ok {
						vc.specErrs = append(vc.specErrs, fmt.Sprintf("%s:%d: modifies: %s", con.File, con.Line, string(se)))
						return
					}
					panic(rr)
				}
			}()
			switch m.K {
			case ESelect:
				x := oldEnv.materialize(oldEnv.tr(m.X), nil)
				p := x.Go.Underlying().(*types.Pointer)
				stt := p.Elem().Underlying().(*types.Struct)
				for i := 0; i < stt.NumFields(); i++ {
					if stt.Field(i).Name() == m.Op {
						key, _ := vc.fieldKey(p.Elem(), i)
						fp.fields[key] = append(fp.fields[key], x.T)
					}
				}
			case EIndex:
				s := oldEnv.materialize(oldEnv.tr(m.X), nil)
				sl := s.Go.Underlying().(*types.Slice)
				key, _ := vc.elemKey(sl.Elem())
				fp.elems[key] = append(fp.elems[key], elemPlace{vc.slArr(s.T), vc.slOff(s.T), vc.iAdd(vc.slOff(s.T), vc.modExtent(s.T, m))})
			}
		}()
	}
	return fp
}

// modExtent: s[*] names the elements inside the slice's length; s[cap] names its whole capacity window
// (what an append to s may write in place).
func (vc *VC) modExtent(s *Term, m *SExpr) *Term {
	if m.Y != nil && m.Y.K == EIdent && m.Y.Op == "cap" {
		return vc.slCap(s)
	}
	return vc.slLen(s)
}

// frameFormula: heap component k agrees with its entry value at (ref[, j]) unless the place is in the modifies clause.
func (vc *VC) frameFormula(k string, st *State, ref, j *Term) *Term {
	fp := vc.modifiesPlaces()
	wm0 := vc.heapGet(vc.entry, "wm")
	now := vc.heapGet(st, k)
	was := vc.heapGet(vc.entry, k)
	if now == was || (len(now.Args) == 0 && now.Op == was.Op) {
		return nil
	}
	switch {
	case strings.HasPrefix(k, "F!"), strings.HasPrefix(k, "P!"):
		cs := []*Term{App(">=", SBool, ref, IntLit64(0)), App("<=", SBool, ref, wm0)}
		for _, a := range fp.fields[k] {
			cs = append(cs, Not(Eq(ref, a)))
		}
		return Implies(And(cs...), Eq(Select(now, ref), Select(was, ref)))
	case strings.HasPrefix(k, "E!"):
		cs := []*Term{App(">=", SBool, ref, IntLit64(0)), App("<=", SBool, ref, wm0)}
		for _, p := range fp.elems[k] {
			cs = append(cs, Not(And(Eq(ref, p.arr), vc.iCmp(">=", j, p.lo, true), vc.iCmp("<", j, p.hi, true))))
		}
		return Implies(And(cs...), Eq(Select(Select(now, ref), j), Select(Select(was, ref), j)))
	case strings.HasPrefix(k, "G!"):
		return Eq(now, was)
	}
	return nil
}

// frameObligations: nothing outside the modifies clause changed among pre-existing objects.
func (vc *VC) frameObligations(fr *frame, r *retInfo, env *SEnv) {
	keys := map[string]bool{}
	for k := range r.st.heap {
		keys[k] = true
	}
	if r.st.base != "0" {
		for k := range vc.heapSorts {
			keys[k] = true
		}
	}
	for _, k := range sortedKeys(keys) {
		if k == "wm" {
			continue
		}
		ref := vc.fresh("fr!ref", SInt)
		j := vc.fresh("fr!idx", vc.idxSort())
		cond := vc.frameFormula(k, r.st, ref, j)
		if cond == nil {
			continue
		}
		if o := vc.oblige("frame", r.st, cond, r.pos, "frame: "+k+" unchanged outside the modifies clause"); o != nil {
			o.Name = fmt.Sprintf("%s#frame.%s@ret%d", vc.funcName(), strings.TrimPrefix(k, "F!"), vc.retIndex(fr, r))
			o.RetSt = r.st
		}
	}
}

// useLemmas assumes instances of proved lemmas named by `use` clauses (evaluated in the entry state).
func (vc *VC) useLemmas(con *Contract, env *SEnv, st *State) {
	for _, u := range con.Uses {
		if u.E.K != ECall || u.E.X.K != EIdent {
			vc.specError(con, u, fmt.Errorf("use needs lemma(args)"))
			continue
		}
		lem := vc.eng.findLemma(con.PkgPath, u.E.X.Op)
		if lem == nil {
			vc.specError(con, u, fmt.Errorf("unknown lemma %s", u.E.X.Op))
			continue
		}
		t, err := vc.lemmaInstance(lem, env, u.E.Args)
		if err != nil {
			vc.specError(con, u, err)
			continue
		}
		vc.flushUnfold()
		vc.assume(st.guard, t)
		vc.usedLemmas = append(vc.usedLemmas, lem.Name)
	}
}

func (eng *Engine) findLemma(pkgPath, name string) *Contract {
	var found *Contract
	for _, c := range eng.Items {
		if c.Kind != "lemma" {
			continue
		}
		if c.Name == pkgPath+"."+name {
			return c
		}
		if strings.HasSuffix(c.Name, "."+name) {
			found = c
		}
	}
	return found
}

// lemmaInstance builds requires(args) ==> ensures(args).
func (vc *VC) lemmaInstance(lem *Contract, env *SEnv, args []*SExpr) (t *Term, err error) {
	defer func() {
		if r := recover(); r != nil {
			if se, ok := r.(specErr); ok {
				err = fmt.Errorf("%s", string(se))
				return
			}
			panic(r)
		}
	}()
	if len(args) != len(lem.ParamNames) {
		return nil, fmt.Errorf("lemma %s expects %d arguments", lem.Name, len(lem.ParamNames))
	}
	le := vc.newEnv(env.cur, env.old, lem.PkgPath)
	for i, a := range args {
		v := env.materialize(env.tr(a), lem.ParamTypes[i])
		v = env.coerce(v, lem.ParamTypes[i], "lemma argument")
		le.vars[lem.ParamNames[i]] = v
	}
	var pre, post []*Term
	for _, rq := range lem.Requires {
		x, e := le.trBool(rq.E)
		if e != nil {
			return nil, e
		}
		pre = append(pre, x)
	}
	// a lemma proved by cases is stated for the enumerated ranges only
	if strings.HasPrefix(lem.Proof, "cases") {
		for _, part := range strings.Split(strings.TrimPrefix(lem.Proof, "cases"), ",") {
			f := strings.Fields(part)
			if len(f) != 3 {
				continue
			}
			var lo, hi int64
			fmt.Sscanf(f[1], "%d", &lo)
			fmt.Sscanf(f[2], "%d", &hi)
			v := le.vars[f[0]]
			if v == nil || v.Go == nil {
				return nil, fmt.Errorf("lemma %s: case variable %s is not a parameter", lem.Name, f[0])
			}
			x := le.materialize(v, v.Go)
			pre = append(pre, vc.iCmp("<=", vc.intConst(big.NewInt(lo), v.Go), x.T, true), vc.iCmp("<=", x.T, vc.intConst(big.NewInt(hi), v.Go), true))
		}
	}
	for _, en := range lem.Ensures {
		x, e := le.trBool(en.E)
		if e != nil {
			return nil, e
		}
		post = append(post, x)
	}
	return Implies(And(pre...), And(post...)), nil
}

// buildLemmaVC: a lemma is an obligation of its own: requires ==> ensures for all parameter values.
func (eng *Engine) buildLemmaVC(lem *Contract) (vc *VC) {
	vc = newVC(eng, nil, lem)
	vc.lemmaMode = true
	vc.realMul = lem.Opts["nia"] == "on"
	defer func() {
		if r := recover(); r != nil {
			if se, ok := r.(specErr); ok {
				vc.specErrs = append(vc.specErrs, string(se))
				return
			}
			panic(r)
		}
	}()
	entry := &State{guard: TTrue, locals: map[*ssa.Alloc]*Term{}, heap: map[string]*Term{}, base: "0"}
	vc.entry = entry
	vc.heapSorts["wm"] = SInt
	env := vc.newEnv(entry, entry, lem.PkgPath)
	for i, n := range lem.ParamNames {
		t := vc.declare("p!"+n, vc.sortOf(lem.ParamTypes[i]))
		vc.params = append(vc.params, t)
		env.vars[n] = &SVal{T: t, Go: lem.ParamTypes[i]}
		env.oldVars[n] = env.vars[n]
		vc.facts = append(vc.facts, vc.typeInv(t, lem.ParamTypes[i], entry))
	}
	wm0 := vc.heapGet(entry, "wm")
	vc.facts = append(vc.facts, App(">=", SBool, wm0, IntLit64(0)))
	vc.loadContractGlobals(lem)
	if strings.HasPrefix(lem.Proof, "cases") {
		vc.lemmaByCases(lem, env)
		return vc
	}
	for _, rq := range lem.Requires {
		t, err := env.trBool(rq.E)
		if err != nil {
			vc.specError(lem, rq, err)
			continue
		}
		vc.flushUnfold()
		vc.facts = append(vc.facts, t)
	}
	vc.useLemmas(lem, env, entry)
	// induction hypothesis: "proof induction n" assumes the lemma for n-1 (when n-1 still satisfies requires)
	if strings.HasPrefix(lem.Proof, "induction") {
		v := strings.TrimSpace(strings.TrimPrefix(lem.Proof, "induction"))
		var args []*SExpr
		for _, n := range lem.ParamNames {
			if n == v {
				args = append(args, &SExpr{K: EBinary, Op: "-", X: &SExpr{K: EIdent, Op: n}, Y: &SExpr{K: ENum, Op: "1"}})
			} else {
				args = append(args, &SExpr{K: EIdent, Op: n})
			}
		}
		ih, err := vc.lemmaInstance(lem, env, args)
		if err != nil {
			vc.specErrs = append(vc.specErrs, fmt.Sprintf("%s:%d: induction: %v", lem.File, lem.Line, err))
		} else {
			vc.flushUnfold()
			// the hypothesis may only be used for a smaller, non-negative measure
			iv := env.vars[v]
			if iv == nil || !isInteger(iv.Go) {
				vc.specErrs = append(vc.specErrs, fmt.Sprintf("%s:%d: induction variable %q is not an integer parameter", lem.File, lem.Line, v))
			} else {
				_, signed, _ := intInfo(iv.Go)
				vc.facts = append(vc.facts, Implies(vc.iCmp(">", iv.T, vc.intConst(big.NewInt(0), iv.Go), signed), ih))
				// well-foundedness: the lemma is only claimed for n >= 0 (must follow from requires)
				vc.obls = append(vc.obls, &Obl{Name: vc.funcName() + "#lemma.wf", Kind: "lemma", Guard: TTrue,
					Cond: vc.iCmp(">=", iv.T, vc.intConst(big.NewInt(0), iv.Go), signed), NFacts: len(vc.facts), Desc: "induction variable is bounded below by the requires"})
			}
		}
	}
	vc.obls = append(vc.obls, &Obl{Name: vc.funcName() + "#vacuity.requires", Kind: "vacuity", Guard: TTrue, Cond: TTrue, NFacts: len(vc.facts), WantSat: true,
		Desc: "lemma hypotheses are satisfiable"})
	env.proving = true
	for i, en := range lem.Ensures {
		t, err := env.trBool(en.E)
		if err != nil {
			vc.specError(lem, en, err)
			continue
		}
		vc.flushUnfold()
		o := &Obl{Name: fmt.Sprintf("%s#lemma.%d", vc.funcName(), i), Kind: "lemma", Guard: TTrue, Cond: t, NFacts: len(vc.facts),
			Desc: fmt.Sprintf("lemma conclusion (%s:%d): %s", en.File, en.Line, en.Src)}
		vc.obls = append(vc.obls, o)
		vc.facts = append(vc.facts, t)
	}
	return vc
}

var _ = token.NoPos

// loadContractGlobals asserts the dumped contents of the tables named by the contract's globals clause.
func (vc *VC) loadContractGlobals(con *Contract) {
	byPkg := map[string][]string{}
	for _, g := range con.Globals {
		pkgPath := con.PkgPath
		name := g
		if i := strings.Index(g, "."); i >= 0 {
			q := g[:i]
			name = g[i+1:]
			found := false
			if pp := vc.eng.nearestPkg(con.PkgPath, q); pp != "" {
				pkgPath = pp
				found = true
			}
			if !found {
				vc.specErrs = append(vc.specErrs, fmt.Sprintf("%s:%d: globals: unknown package %s", con.File, con.Line, q))
				continue
			}
		}
		byPkg[pkgPath] = append(byPkg[pkgPath], name)
	}
	for _, p := range sortedKeys(byPkg) {
		if err := vc.loadGlobals(p, byPkg[p]); err != nil {
			vc.specErrs = append(vc.specErrs, fmt.Sprintf("%s:%d: globals: %v", con.File, con.Line, err))
		}
	}
}

// lemmaByCases proves a lemma over finite integer ranges by enumerating the values ("proof cases i 0 31, j 0 31"):
// every instance is a ground obligation (constants fold in the translator, the rest is decided by the solver).
func (vc *VC) lemmaByCases(lem *Contract, env *SEnv) {
	type rng struct {
		name   string
		lo, hi int64
	}
	var rs []rng
	for _, part := range strings.Split(strings.TrimPrefix(lem.Proof, "cases"), ",") {
		f := strings.Fields(part)
		if len(f) != 3 {
			vc.specErrs = append(vc.specErrs, fmt.Sprintf("%s:%d: proof cases needs 'name lo hi'", lem.File, lem.Line))
			return
		}
		var r rng
		r.name = f[0]
		fmt.Sscanf(f[1], "%d", &r.lo)
		fmt.Sscanf(f[2], "%d", &r.hi)
		rs = append(rs, r)
	}
	vals := make([]int64, len(rs))
	var rec func(k int)
	count := 0
	rec = func(k int) {
		if k == len(rs) {
			ce := env.child()
			ce.proving = true
			// facts produced while translating this case (unfoldings of recursive spec functions on its literals)
			// are local to the case: they are asserted only inside the obligations of this case
			n0 := len(vc.facts)
			vc.unfoldSeen = nil
			var caseObls []*Obl
			defer func() {
				local := append([]*Term{}, vc.facts[n0:]...)
				vc.facts = vc.facts[:n0]
				for _, o := range caseObls {
					o.Local = local
					o.NFacts = n0
				}
			}()
			var label []string
			for i, r := range rs {
				ce.vars[r.name] = &SVal{CI: big.NewInt(vals[i])}
				label = append(label, fmt.Sprintf("%s=%d", r.name, vals[i]))
			}
			var pre []*Term
			for _, rq := range lem.Requires {
				t, err := ce.trBool(rq.E)
				if err != nil {
					vc.specError(lem, rq, err)
					return
				}
				pre = append(pre, t)
			}
			p := And(pre...)
			if p.IsFalse() {
				return
			}
			for i, en := range lem.Ensures {
				t, err := ce.trBool(en.E)
				if err != nil {
					vc.specError(lem, en, err)
					return
				}
				vc.flushUnfold()
				count++
				cond := Implies(p, t)
				if cond.IsTrue() {
					vc.foldedCases++
					continue
				}
				o := &Obl{Name: fmt.Sprintf("%s#lemma.%d[%s]", vc.funcName(), i, strings.Join(label, ",")), Kind: "lemma", Guard: TTrue, Cond: cond,
					NFacts: len(vc.facts), Desc: fmt.Sprintf("lemma case %s (%s:%d): %s", strings.Join(label, ","), en.File, en.Line, en.Src)}
				vc.obls = append(vc.obls, o)
				caseObls = append(caseObls, o)
			}
			return
		}
		for v := rs[k].lo; v <= rs[k].hi; v++ {
			vals[k] = v
			rec(k + 1)
		}
	}
	rec(0)
	if count == 0 {
		vc.specErrs = append(vc.specErrs, fmt.Sprintf("%s:%d: proof by cases generated no instance", lem.File, lem.Line))
	}
}
