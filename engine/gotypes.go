package main

import (
	"fmt"
	"go/types"
	"math/big"
	"os"
	"strings"
)

// intInfo returns (width, signed) for integer basic types.
func intInfo(t types.Type) (int, bool, bool) {
	b, ok := t.Underlying().(*types.Basic)
	if !ok {
		return 0, false, false
	}
	switch b.Kind() {
	case types.Int, types.Int64, types.UntypedInt, types.UntypedRune:
		return 64, true, true
	case types.Int32:
		return 32, true, true
	case types.Int16:
		return 16, true, true
	case types.Int8:
		return 8, true, true
	case types.Uint, types.Uint64, types.Uintptr:
		return 64, false, true
	case types.Uint32:
		return 32, false, true
	case types.Uint16:
		return 16, false, true
	case types.Uint8:
		return 8, false, true
	}
	return 0, false, false
}

func isFloat(t types.Type) bool {
	b, ok := t.Underlying().(*types.Basic)
	return ok && (b.Info()&types.IsFloat) != 0
}
func isString(t types.Type) bool {
	b, ok := t.Underlying().(*types.Basic)
	return ok && (b.Info()&types.IsString) != 0
}
func isBool(t types.Type) bool {
	b, ok := t.Underlying().(*types.Basic)
	return ok && (b.Info()&types.IsBoolean) != 0
}
func isInteger(t types.Type) bool {
	_, _, ok := intInfo(t)
	return ok
}

func (vc *VC) idxSort() *Sort {
	if vc.mode == "bv" {
		return SBV(64)
	}
	return SInt
}

func (vc *VC) sortOf(t types.Type) *Sort {
	switch u := t.Underlying().(type) {
	case *types.Basic:
		if w, _, ok := intInfo(t); ok {
			if vc.mode == "bv" {
				return SBV(w)
			}
			return SInt
		}
		if isFloat(t) {
			return SReal
		}
		if isBool(t) {
			return SBool
		}
		if isString(t) {
			return SInt
		}
		if u.Kind() == types.UnsafePointer || u.Kind() == types.UntypedNil {
			return SInt
		}
		return SInt
	case *types.Pointer, *types.Map, *types.Chan, *types.Signature:
		return SInt
	case *types.Slice:
		return SSlice
	case *types.Interface:
		return SIface
	case *types.Array:
		return SArr(vc.idxSort(), vc.sortOf(u.Elem()))
	case *types.Struct:
		return vc.structSort(t, u)
	case *types.Tuple:
		return SInt
	}
	return SInt
}

func typeKey(t types.Type) string {
	s := types.TypeString(t, func(p *types.Package) string { return p.Path() })
	s = strings.ReplaceAll(s, modulePath, "")
	r := strings.NewReplacer(" ", "_", "*", "p.", "[", "L", "]", "J", "{", "(", "}", ")", ";", ",", "/", ".", "\"", "")
	return r.Replace(s)
}

func (vc *VC) structSort(t types.Type, st *types.Struct) *Sort {
	key := typeKey(t)
	if s, ok := vc.dataSorts[key]; ok {
		return s
	}
	name := "S!" + key
	s := &Sort{K: KData, Name: smtName(name)}
	vc.dataSorts[key] = s
	for i := 0; i < st.NumFields(); i++ {
		s.Field = append(s.Field, DField{smtName(fmt.Sprintf("%s!%s", name, st.Field(i).Name())), vc.sortOf(st.Field(i).Type())})
	}
	vc.dataOrder = append(vc.dataOrder, s)
	return s
}

func (vc *VC) mkStruct(s *Sort, fields []*Term) *Term {
	if len(fields) == 0 {
		return Atom(smtName("mk!"+strings.Trim(s.Name, "|")), s)
	}
	return App(smtName("mk!"+strings.Trim(s.Name, "|")), s, fields...)
}

func (vc *VC) structField(v *Term, i int) *Term {
	f := v.S.Field[i]
	if strings.HasPrefix(v.Op, "|mk!") || strings.HasPrefix(v.Op, "mk!") {
		if len(v.Args) == len(v.S.Field) {
			return v.Args[i]
		}
	}
	return App(f.Name, f.S, v)
}

func (vc *VC) structUpdate(v *Term, i int, nv *Term) *Term {
	fs := make([]*Term, len(v.S.Field))
	for j := range fs {
		if j == i {
			fs[j] = nv
		} else {
			fs[j] = vc.structField(v, j)
		}
	}
	return vc.mkStruct(v.S, fs)
}

// ---- numerals by mode

func (vc *VC) intConst(v *big.Int, t types.Type) *Term {
	if vc.mode == "bv" {
		w, _, ok := intInfo(t)
		if !ok {
			w = 64
		}
		return BVLit(v, w)
	}
	return IntLit(v)
}

func (vc *VC) idx(v int64) *Term {
	if vc.mode == "bv" {
		return BVLit(big.NewInt(v), 64)
	}
	return IntLit64(v)
}

func (vc *VC) zero(t types.Type) *Term {
	return vc.zeroOfSort(vc.sortOf(t))
}

func (vc *VC) zeroOfSort(s *Sort) *Term {
	switch s.K {
	case KBool:
		return TFalse
	case KInt:
		return IntLit64(0)
	case KReal:
		return Atom("0.0", SReal)
	case KBV:
		return BVLit(big.NewInt(0), s.W)
	case KSlice:
		return vc.mkSlice(IntLit64(0), vc.idx(0), vc.idx(0), vc.idx(0))
	case KIface:
		return vc.mkIface(IntLit64(0), IntLit64(0))
	case KArr:
		return App("(as const "+s.String()+")", s, vc.zeroOfSort(s.Elem))
	case KData:
		fs := make([]*Term, len(s.Field))
		for i, f := range s.Field {
			fs[i] = vc.zeroOfSort(f.S)
		}
		return vc.mkStruct(s, fs)
	}
	return IntLit64(0)
}

// ---- slices and interfaces

func (vc *VC) mkSlice(arr, off, ln, cp *Term) *Term {
	return App("mk-slice", SSlice, arr, off, ln, cp)
}
func (vc *VC) slArr(s *Term) *Term {
	if d, ok := vc.sliceDefs[s.Op]; ok && len(s.Args) == 0 {
		return d.Args[0]
	}
	if s.Op == "mk-slice" {
		return s.Args[0]
	}
	return App("s.arr", SInt, s)
}
func (vc *VC) slOff(s *Term) *Term {
	if d, ok := vc.sliceDefs[s.Op]; ok && len(s.Args) == 0 {
		return d.Args[1]
	}
	if s.Op == "mk-slice" {
		return s.Args[1]
	}
	return App("s.off", vc.idxSort(), s)
}
func (vc *VC) slLen(s *Term) *Term {
	if d, ok := vc.sliceDefs[s.Op]; ok && len(s.Args) == 0 {
		return d.Args[2]
	}
	if s.Op == "mk-slice" {
		return s.Args[2]
	}
	return App("s.len", vc.idxSort(), s)
}
func (vc *VC) slCap(s *Term) *Term {
	if d, ok := vc.sliceDefs[s.Op]; ok && len(s.Args) == 0 {
		return d.Args[3]
	}
	if s.Op == "mk-slice" {
		return s.Args[3]
	}
	return App("s.cap", vc.idxSort(), s)
}
func (vc *VC) mkIface(tag, val *Term) *Term { return App("mk-iface", SIface, tag, val) }
func (vc *VC) ifTag(i *Term) *Term {
	if i.Op == "mk-iface" {
		return i.Args[0]
	}
	return App("i.tag", SInt, i)
}
func (vc *VC) ifVal(i *Term) *Term {
	if i.Op == "mk-iface" {
		return i.Args[1]
	}
	return App("i.val", SInt, i)
}

// ---- integer arithmetic by mode

func (vc *VC) isBV() bool { return vc.mode == "bv" }

func (vc *VC) iAdd(a, b *Term) *Term {
	if vc.isBV() {
		return App("bvadd", a.S, a, b)
	}
	if av, ok := intLitVal(a); ok {
		if bv, ok := intLitVal(b); ok {
			return IntLit(new(big.Int).Add(av, bv))
		}
		if av.Sign() == 0 {
			return b
		}
	}
	if bv, ok := intLitVal(b); ok && bv.Sign() == 0 {
		return a
	}
	return App("+", SInt, a, b)
}
func (vc *VC) iSub(a, b *Term) *Term {
	if vc.isBV() {
		return App("bvsub", a.S, a, b)
	}
	if av, ok := intLitVal(a); ok {
		if bv, ok := intLitVal(b); ok {
			return IntLit(new(big.Int).Sub(av, bv))
		}
	}
	if bv, ok := intLitVal(b); ok && bv.Sign() == 0 {
		return a
	}
	return App("-", SInt, a, b)
}
func (vc *VC) iMul(a, b *Term) *Term {
	if vc.isBV() {
		return App("bvmul", a.S, a, b)
	}
	_, aLit := intLitVal(a)
	_, bLit := intLitVal(b)
	if av, ok := intLitVal(a); ok {
		if bv, ok := intLitVal(b); ok {
			return IntLit(new(big.Int).Mul(av, bv))
		}
	}
	if !aLit && !bLit && !vc.realMul {
		// product of two symbolic integers: kept uninterpreted (imul); the non-linear facts a proof needs are
		// supplied by separately proved lemmas (use / hint), so the solvers stay in linear arithmetic
		f := vc.declareFun("imul", []*Sort{SInt, SInt}, SInt)
		if !vc.declSeen["imul!ax"] {
			vc.declSeen["imul!ax"] = true
			x, y := Atom("x!m", SInt), Atom("y!m", SInt)
			vc.facts = append(vc.facts, Forall([]*Term{x, y}, Eq(App(f, SInt, x, y), App(f, SInt, y, x)), []*Term{App(f, SInt, x, y)}))
			// units and zero (products with a factor that is only known to equal 0 or 1)
			vc.facts = append(vc.facts, Forall([]*Term{x, y}, And(
				Implies(Eq(y, IntLit64(1)), Eq(App(f, SInt, x, y), x)),
				Implies(Eq(y, IntLit64(0)), Eq(App(f, SInt, x, y), IntLit64(0)))), []*Term{App(f, SInt, x, y)}))
			vc.assumed["int mode: products of two symbolic integers are uninterpreted (commutative) unless a lemma supplies more"] = true
		}
		return App(f, SInt, a, b)
	}
	return App("*", SInt, a, b)
}
func (vc *VC) iNeg(a *Term) *Term {
	if vc.isBV() {
		return App("bvneg", a.S, a)
	}
	if av, ok := intLitVal(a); ok {
		return IntLit(new(big.Int).Neg(av))
	}
	return App("-", SInt, a)
}

// truncated division / remainder (Go semantics); divisor assumed non-zero
func (vc *VC) iQuo(a, b *Term, signed bool) *Term {
	if vc.isBV() {
		if k, ok := bvPow2Lit(b); ok && os.Getenv("GOVC_POW2") != "" {
			// division by 2^k without a divider circuit
			w := a.S.W
			sh := BVLit(big.NewInt(int64(k)), w)
			if !signed {
				return App("bvlshr", a.S, a, sh)
			}
			neg := App("bvslt", SBool, a, BVLit(big.NewInt(0), w))
			return Ite(neg, App("bvneg", a.S, App("bvlshr", a.S, App("bvneg", a.S, a), sh)), App("bvlshr", a.S, a, sh))
		}
		if signed {
			return App("bvsdiv", a.S, a, b)
		}
		return App("bvudiv", a.S, a, b)
	}
	if av, ok := intLitVal(a); ok {
		if bv, ok := intLitVal(b); ok && bv.Sign() != 0 {
			return IntLit(new(big.Int).Quo(av, bv))
		}
	}
	if !signed {
		return App("div", SInt, a, b)
	}
	// trunc toward zero: sign(a)*sign(b) * (|a| div |b|)
	if bv, ok := intLitVal(b); ok && bv.Sign() > 0 {
		return Ite(App(">=", SBool, a, IntLit64(0)), App("div", SInt, a, b), App("-", SInt, App("div", SInt, App("-", SInt, a), b)))
	}
	return App("tdiv", SInt, a, b)
}
func (vc *VC) iRem(a, b *Term, signed bool) *Term {
	if vc.isBV() {
		if k, ok := bvPow2Lit(b); ok && os.Getenv("GOVC_POW2") != "" {
			w := a.S.W
			mask := BVLit(new(big.Int).Sub(pow2(k), big.NewInt(1)), w)
			if !signed {
				return App("bvand", a.S, a, mask)
			}
			neg := App("bvslt", SBool, a, BVLit(big.NewInt(0), w))
			return Ite(neg, App("bvneg", a.S, App("bvand", a.S, App("bvneg", a.S, a), mask)), App("bvand", a.S, a, mask))
		}
		if signed {
			return App("bvsrem", a.S, a, b)
		}
		return App("bvurem", a.S, a, b)
	}
	if av, ok := intLitVal(a); ok {
		if bv, ok := intLitVal(b); ok && bv.Sign() != 0 {
			return IntLit(new(big.Int).Rem(av, bv))
		}
	}
	if !signed {
		return App("mod", SInt, a, b)
	}
	if bv, ok := intLitVal(b); ok && bv.Sign() > 0 {
		return Ite(App(">=", SBool, a, IntLit64(0)), App("mod", SInt, a, b), App("-", SInt, App("mod", SInt, App("-", SInt, a), b)))
	}
	r := App("tmod", SInt, a, b)
	// bounds of the remainder for a symbolic positive divisor, stated explicitly (a theorem of integer arithmetic;
	// the solvers do not derive it from the nonlinear definition reliably)
	key := "tmodbound:" + r.String()
	if !vc.declSeen[key] {
		vc.declSeen[key] = true
		z := IntLit64(0)
		vc.facts = append(vc.facts, Implies(And(App(">=", SBool, a, z), App(">", SBool, b, z)), And(App(">=", SBool, r, z), App("<", SBool, r, b), Implies(App("<", SBool, a, b), Eq(r, a)))))
	}
	return r
}

func (vc *VC) iCmp(op string, a, b *Term, signed bool) *Term {
	if vc.isBV() {
		m := map[string]string{"<": "bvslt", "<=": "bvsle", ">": "bvsgt", ">=": "bvsge"}
		if !signed {
			m = map[string]string{"<": "bvult", "<=": "bvule", ">": "bvugt", ">=": "bvuge"}
		}
		return App(m[op], SBool, a, b)
	}
	if av, ok := intLitVal(a); ok {
		if bv, ok := intLitVal(b); ok {
			c := av.Cmp(bv)
			r := false
			switch op {
			case "<":
				r = c < 0
			case "<=":
				r = c <= 0
			case ">":
				r = c > 0
			case ">=":
				r = c >= 0
			}
			if r {
				return TTrue
			}
			return TFalse
		}
	}
	return App(op, SBool, a, b)
}

func pow2(k int) *big.Int { return new(big.Int).Lsh(big.NewInt(1), uint(k)) }

// wrap value of Go type t after an arithmetic operation (int mode only): unsigned sized types wrap mod 2^w.
func (vc *VC) wrap(v *Term, t types.Type) *Term {
	if vc.isBV() {
		return v
	}
	w, signed, ok := intInfo(t)
	if !ok || signed {
		return v
	}
	if lv, ok := intLitVal(v); ok {
		return IntLit(new(big.Int).Mod(lv, pow2(w)))
	}
	return App("mod", SInt, v, IntLit(pow2(w)))
}

// rangeFact gives the type-range constraint of an integer value (int mode).
func (vc *VC) rangeFact(v *Term, t types.Type) *Term {
	if vc.isBV() {
		return TTrue
	}
	w, signed, ok := intInfo(t)
	if !ok {
		return TTrue
	}
	if signed {
		lo := new(big.Int).Neg(pow2(w - 1))
		hi := new(big.Int).Sub(pow2(w-1), big.NewInt(1))
		return And(App("<=", SBool, IntLit(lo), v), App("<=", SBool, v, IntLit(hi)))
	}
	hi := new(big.Int).Sub(pow2(w), big.NewInt(1))
	return And(App("<=", SBool, IntLit64(0), v), App("<=", SBool, v, IntLit(hi)))
}

// convInt converts an integer term between Go integer types.
func (vc *VC) convInt(v *Term, from, to types.Type) *Term {
	fw, fs, ok1 := intInfo(from)
	tw, ts, ok2 := intInfo(to)
	if !ok1 || !ok2 {
		return v
	}
	if vc.isBV() {
		if tw == fw {
			return v
		}
		if tw < fw {
			return App(fmt.Sprintf("(_ extract %d 0)", tw-1), SBV(tw), v)
		}
		if fs {
			return App(fmt.Sprintf("(_ sign_extend %d)", tw-fw), SBV(tw), v)
		}
		return App(fmt.Sprintf("(_ zero_extend %d)", tw-fw), SBV(tw), v)
	}
	// int mode
	if !ts {
		if !fs && fw <= tw {
			return v
		}
		if fs && fw <= tw {
			// signed -> unsigned of at least the same width: add 2^tw to negative values
			if lv, ok := intLitVal(v); ok {
				return IntLit(new(big.Int).Mod(lv, pow2(tw)))
			}
			return Ite(App(">=", SBool, v, IntLit64(0)), v, App("+", SInt, v, IntLit(pow2(tw))))
		}
		if lv, ok := intLitVal(v); ok {
			return IntLit(new(big.Int).Mod(lv, pow2(tw)))
		}
		return App("mod", SInt, v, IntLit(pow2(tw)))
	}
	// to signed
	if fs && fw <= tw {
		return v
	}
	if !fs && fw < tw {
		return v
	}
	// narrowing or unsigned->signed same width: wrap into signed range
	m := App("mod", SInt, App("+", SInt, v, IntLit(pow2(tw-1))), IntLit(pow2(tw)))
	return App("-", SInt, m, IntLit(pow2(tw-1)))
}

// bvPow2Lit recognises a bit-vector literal 2^k (k >= 1).
func bvPow2Lit(t *Term) (int, bool) {
	if t.S.K != KBV || len(t.Args) != 0 || !strings.HasPrefix(t.Op, "(_ bv") {
		return 0, false
	}
	f := strings.Fields(strings.Trim(t.Op, "()"))
	if len(f) != 3 {
		return 0, false
	}
	v, ok := new(big.Int).SetString(strings.TrimPrefix(f[1], "bv"), 10)
	if !ok || v.Sign() <= 0 || v.Cmp(big.NewInt(1)) == 0 {
		return 0, false
	}
	if new(big.Int).And(v, new(big.Int).Sub(v, big.NewInt(1))).Sign() != 0 {
		return 0, false
	}
	return v.BitLen() - 1, true
}
