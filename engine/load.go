package main

import (
	"fmt"
	"go/ast"
	"go/parser"
	"go/token"
	"go/types"
	"os"
	"path/filepath"
	"sort"
	"strconv"
	"strings"
	"sync"

	"golang.org/x/tools/go/packages"
	"golang.org/x/tools/go/ssa"
	"golang.org/x/tools/go/ssa/ssautil"
)

const modulePath = "github.com/makiuchi-d/gozxing"

type Engine struct {
	RepoDir string
	Fset    *token.FileSet
	Pkgs    []*packages.Package
	Prog    *ssa.Program
	SPkgs   map[string]*ssa.Package        // by pkg path
	PPkgs   map[string]*packages.Package   // by pkg path
	ByName  map[string][]*packages.Package // by package name

	Contracts      map[*ssa.Function]*Contract
	Items          []*Contract          // in file order (funcs, lemmas)
	SpecFuncs      map[string]*SpecFunc // key pkgpath + "." + name
	Tables         []*TableSpec
	IfaceCons      map[string]*Contract // key: types.Func FullName of interface method
	FieldCons      map[string]*Contract // key: "pkgpath.Type.field" of func-typed fields
	fieldImplCache map[string][]*ssa.Function
	fieldImplErr   map[string]error
	funcIDs        map[*ssa.Function]int64

	Effects       map[*ssa.Function]*Effect
	AllFuncs      []*ssa.Function
	keyTypes      map[string]keyType
	implCache     map[string][]*ssa.Function
	dumps         map[string]*tableDump
	ConcreteTypes []types.Type // all named types (and pointers) in module, for iface tags
	typeIDs       map[string]int
	typeByID      []types.Type

	LoadErrs []string
}

type Clause struct {
	E    *SExpr
	Src  string
	Line int
	File string
}

type LoopSpec struct {
	Invariants []*Clause
	Decreases  *Clause
	Uses       []*Clause
}

type Contract struct {
	Kind        string // "func", "lemma", "iface", "field"
	Name        string
	Header      string
	PkgPath     string
	Fn          *ssa.Function
	ParamNames  []string // contract header names, by position (receiver first if method)
	ParamTypes  []types.Type
	ResultNames []string
	ResultTypes []types.Type
	Mode        string
	Requires    []*Clause
	Ensures     []*Clause
	Modifies    []*SExpr
	ModGiven    bool
	Lets        []letDef
	Loops       map[int]*LoopSpec
	Props       []string
	Uses        []*Clause
	Opts        map[string]string
	File        string
	Line        int
	Trusted     bool
	Proof       string               // lemma proof hint: "", "induction <var>"
	Internal    []*Clause            // postconditions over the function's locals at each return; checked, never exported to callers
	Globals     []string             // package-level tables whose dumped contents are assumed at entry ("Name" or "pkg.Name")
	Asserts     map[string][]*Clause // "callee#ordinal" -> assertions checked just before that call
}

type letDef struct {
	Name string
	E    *SExpr
}

type SpecParam struct {
	Name string
	Type types.Type
}

type SpecFunc struct {
	Name      string
	PkgPath   string
	Params    []SpecParam
	Result    types.Type
	Body      *SExpr // nil => uninterpreted
	Recursive bool
	Line      int
	File      string
	ModeOnly  string // if set, body only used in this mode (abstract elsewhere)
	Opaque    bool   // "opaque func": the body is used only in contracts that say "opt reveal=<name>"; elsewhere it is an uninterpreted function
}

type TableSpec struct {
	Name    string
	PkgPath string
	Expr    string // Go expression evaluated in-package producing the value to dump
	Line    int
	File    string
}

func (c *Contract) hasProp(p string) bool {
	for _, q := range c.Props {
		if q == p {
			return true
		}
	}
	return false
}

func loadEngine(repo string) (*Engine, error) {
	eng := &Engine{RepoDir: repo,
		SPkgs: map[string]*ssa.Package{}, PPkgs: map[string]*packages.Package{}, ByName: map[string][]*packages.Package{},
		Contracts: map[*ssa.Function]*Contract{}, SpecFuncs: map[string]*SpecFunc{},
		IfaceCons: map[string]*Contract{}, FieldCons: map[string]*Contract{},
		typeIDs: map[string]int{}}
	fset := token.NewFileSet()
	eng.Fset = fset
	cfg := &packages.Config{Mode: packages.LoadAllSyntax, Dir: repo, Fset: fset,
		BuildFlags: []string{"-tags=verif"},
		Env:        append(os.Environ(), "GOFLAGS=-mod=mod", "GOPROXY=off", "GOSUMDB=off", "GOTOOLCHAIN=local")}
	pkgs, err := packages.Load(cfg, "./...")
	if err != nil {
		return nil, err
	}
	for _, p := range pkgs {
		for _, e := range p.Errors {
			eng.LoadErrs = append(eng.LoadErrs, e.Error())
		}
	}
	if len(eng.LoadErrs) > 0 {
		return eng, fmt.Errorf("package load errors: %s", strings.Join(eng.LoadErrs, "; "))
	}
	eng.Pkgs = pkgs
	prog, spkgs := ssautil.AllPackages(pkgs, ssa.NaiveForm|ssa.BuildSerially)
	prog.Build()
	eng.Prog = prog
	for i, p := range pkgs {
		if spkgs[i] == nil {
			continue
		}
		eng.SPkgs[p.PkgPath] = spkgs[i]
		eng.PPkgs[p.PkgPath] = p
		eng.ByName[p.Name] = append(eng.ByName[p.Name], p)
	}
	eng.collectTypes()
	if err := eng.loadContracts(); err != nil {
		return eng, err
	}
	return eng, nil
}

func (eng *Engine) inModule(p *types.Package) bool {
	return p != nil && strings.HasPrefix(p.Path(), modulePath)
}

// collectTypes assigns stable ids to all named types of the module (and their pointer types),
// used as dynamic-type tags for interface values.
func (eng *Engine) collectTypes() {
	eng.typeByID = []types.Type{nil}
	var paths []string
	for p := range eng.PPkgs {
		paths = append(paths, p)
	}
	sort.Strings(paths)
	for _, path := range paths {
		sc := eng.PPkgs[path].Types.Scope()
		for _, n := range sc.Names() {
			if tn, ok := sc.Lookup(n).(*types.TypeName); ok && !tn.IsAlias() {
				t := tn.Type()
				if _, isIface := t.Underlying().(*types.Interface); isIface {
					continue
				}
				eng.ConcreteTypes = append(eng.ConcreteTypes, t, types.NewPointer(t))
			}
		}
	}
	for _, t := range eng.ConcreteTypes {
		eng.typeID(t)
	}
}

var engMu sync.Mutex

func (eng *Engine) typeID(t types.Type) int {
	engMu.Lock()
	defer engMu.Unlock()
	k := t.String()
	if id, ok := eng.typeIDs[k]; ok {
		return id
	}
	id := len(eng.typeByID)
	eng.typeIDs[k] = id
	eng.typeByID = append(eng.typeByID, t)
	return id
}

// ---------------------------------------------------------------- contract files

var clauseKeywords = map[string]bool{
	"spec": true, "opaque": true, "pred": true, "func": true, "lemma": true, "mode": true, "requires": true, "ensures": true,
	"modifies": true, "let": true, "loop": true, "use": true, "table": true, "property": true, "opt": true,
	"trusted": true, "iface": true, "field": true, "proof": true, "abstract": true, "globals": true, "assert": true, "internal": true,
}

type rawClause struct {
	kw   string
	text string
	line int
}

func (eng *Engine) loadContracts() error {
	var paths []string
	for p := range eng.PPkgs {
		paths = append(paths, p)
	}
	sort.Strings(paths)
	var errs []string
	for _, path := range paths {
		pkg := eng.PPkgs[path]
		for _, f := range pkg.GoFiles {
			if !strings.HasSuffix(f, "_verif.go") {
				continue
			}
			if err := eng.loadContractFile(pkg, f); err != nil {
				errs = append(errs, err.Error())
			}
		}
	}
	if len(errs) > 0 {
		return fmt.Errorf("contract errors:\n  %s", strings.Join(errs, "\n  "))
	}
	return nil
}

func (eng *Engine) loadContractFile(pkg *packages.Package, file string) error {
	data, err := os.ReadFile(file)
	if err != nil {
		return err
	}
	var raws []rawClause
	for i, line := range strings.Split(string(data), "\n") {
		t := strings.TrimSpace(line)
		if !strings.HasPrefix(t, "//@") {
			continue
		}
		t = strings.TrimSpace(t[3:])
		if t == "" {
			continue
		}
		if strings.HasPrefix(t, "//") { // comment inside contract block
			continue
		}
		if ci := strings.Index(t, " // "); ci >= 0 {
			t = strings.TrimSpace(t[:ci])
		}
		kw := t
		if sp := strings.IndexAny(t, " \t"); sp >= 0 {
			kw = t[:sp]
		}
		if clauseKeywords[kw] {
			raws = append(raws, rawClause{kw, strings.TrimSpace(t[len(kw):]), i + 1})
		} else {
			if len(raws) == 0 {
				return fmt.Errorf("%s:%d: continuation without clause", file, i+1)
			}
			raws[len(raws)-1].text += " " + t
		}
	}
	short := filepath.Base(filepath.Dir(file)) + "/" + filepath.Base(file)
	var cur *Contract
	var errs []string
	fail := func(line int, f string, a ...interface{}) {
		errs = append(errs, fmt.Sprintf("%s:%d: %s", short, line, fmt.Sprintf(f, a...)))
	}
	parseE := func(rc rawClause, text string) *Clause {
		e, err := parseSpecExpr(text)
		if err != nil {
			fail(rc.line, "%v", err)
			return nil
		}
		if cur != nil {
			e = cur.expandLets(e)
		}
		return &Clause{E: e, Src: text, Line: rc.line, File: short}
	}
	for _, rc := range raws {
		switch rc.kw {
		case "spec", "pred", "abstract", "opaque":
			cur = nil
			if err := eng.parseSpecFunc(pkg, rc, short); err != nil {
				fail(rc.line, "%v", err)
			}
		case "table":
			cur = nil
			// table NAME = goexpr
			eq := strings.Index(rc.text, "=")
			if eq < 0 {
				fail(rc.line, "table needs NAME = expr")
				continue
			}
			eng.Tables = append(eng.Tables, &TableSpec{Name: strings.TrimSpace(rc.text[:eq]), PkgPath: pkg.PkgPath,
				Expr: strings.TrimSpace(rc.text[eq+1:]), Line: rc.line, File: short})
		case "func", "lemma", "iface", "field":
			c := &Contract{Kind: rc.kw, Header: rc.text, PkgPath: pkg.PkgPath, Loops: map[int]*LoopSpec{},
				Opts: map[string]string{}, File: short, Line: rc.line, Mode: "int"}
			if err := eng.bindHeader(pkg, c); err != nil {
				fail(rc.line, "%v", err)
				cur = nil
				continue
			}
			cur = c
			eng.Items = append(eng.Items, c)
			switch c.Kind {
			case "func":
				if old, dup := eng.Contracts[c.Fn]; dup {
					fail(rc.line, "duplicate contract for %s (first at line %d)", c.Name, old.Line)
				}
				eng.Contracts[c.Fn] = c
			}
		default:
			if cur == nil {
				fail(rc.line, "clause %q outside a func/lemma", rc.kw)
				continue
			}
			switch rc.kw {
			case "mode":
				if rc.text != "int" && rc.text != "bv" {
					fail(rc.line, "unknown mode %q", rc.text)
				}
				cur.Mode = rc.text
			case "property":
				cur.Props = append(cur.Props, strings.Fields(rc.text)...)
			case "opt":
				kv := strings.SplitN(rc.text, "=", 2)
				if len(kv) == 2 {
					cur.Opts[strings.TrimSpace(kv[0])] = strings.TrimSpace(kv[1])
				} else {
					cur.Opts[strings.TrimSpace(rc.text)] = "true"
				}
			case "assert":
				// assert call(callee, n): expr   -- checked in the state just before the n-th call of callee
				t := strings.TrimSpace(rc.text)
				if !strings.HasPrefix(t, "call(") {
					fail(rc.line, "assert needs 'call(callee, n): expr'")
					continue
				}
				cl := strings.Index(t, "):")
				if cl < 0 {
					fail(rc.line, "assert needs 'call(callee, n): expr'")
					continue
				}
				parts := strings.Split(t[5:cl], ",")
				if len(parts) != 2 {
					fail(rc.line, "assert needs 'call(callee, n): expr'")
					continue
				}
				key := strings.TrimSpace(parts[0]) + "#" + strings.TrimSpace(parts[1])
				if c := parseE(rc, strings.TrimSpace(t[cl+2:])); c != nil {
					if cur.Asserts == nil {
						cur.Asserts = map[string][]*Clause{}
					}
					cur.Asserts[key] = append(cur.Asserts[key], c)
				}
			case "globals":
				for _, g := range strings.Split(rc.text, ",") {
					if g = strings.TrimSpace(g); g != "" {
						cur.Globals = append(cur.Globals, g)
					}
				}
			case "trusted":
				cur.Trusted = true
			case "proof":
				cur.Proof = rc.text
			case "let":
				eq := strings.Index(rc.text, "=")
				if eq < 0 {
					fail(rc.line, "let needs NAME = expr")
					continue
				}
				cl := parseE(rc, strings.TrimSpace(rc.text[eq+1:]))
				if cl != nil {
					cur.Lets = append(cur.Lets, letDef{strings.TrimSpace(rc.text[:eq]), cl.E})
				}
			case "requires":
				if cl := parseE(rc, rc.text); cl != nil {
					cur.Requires = append(cur.Requires, cl)
				}
			case "ensures":
				if cl := parseE(rc, rc.text); cl != nil {
					cur.Ensures = append(cur.Ensures, cl)
				}
			case "internal":
				if cl := parseE(rc, rc.text); cl != nil {
					cur.Internal = append(cur.Internal, cl)
				}
			case "use":
				if cl := parseE(rc, rc.text); cl != nil {
					cur.Uses = append(cur.Uses, cl)
				}
			case "modifies":
				cur.ModGiven = true
				if strings.TrimSpace(rc.text) == "nothing" {
					continue
				}
				for _, part := range splitTopLevel(rc.text, ',') {
					part = strings.TrimSpace(part)
					part = strings.ReplaceAll(part, "[*]", "[0]") // element wildcard: index ignored
					if cl := parseE(rc, part); cl != nil {
						cur.Modifies = append(cur.Modifies, cl.E)
					}
				}
			case "loop":
				// loop N: invariant E | loop N: decreases E
				colon := strings.Index(rc.text, ":")
				if colon < 0 {
					fail(rc.line, "loop clause needs 'loop N: invariant|decreases E'")
					continue
				}
				n, err := strconv.Atoi(strings.TrimSpace(rc.text[:colon]))
				if err != nil {
					fail(rc.line, "bad loop ordinal")
					continue
				}
				rest := strings.TrimSpace(rc.text[colon+1:])
				ls := cur.Loops[n]
				if ls == nil {
					ls = &LoopSpec{}
					cur.Loops[n] = ls
				}
				switch {
				case strings.HasPrefix(rest, "invariant"):
					if cl := parseE(rc, strings.TrimSpace(rest[len("invariant"):])); cl != nil {
						ls.Invariants = append(ls.Invariants, cl)
					}
				case strings.HasPrefix(rest, "use"):
					if cl := parseE(rc, strings.TrimSpace(rest[len("use"):])); cl != nil {
						ls.Uses = append(ls.Uses, cl)
					}
				case strings.HasPrefix(rest, "decreases"):
					if cl := parseE(rc, strings.TrimSpace(rest[len("decreases"):])); cl != nil {
						ls.Decreases = cl
					}
				default:
					fail(rc.line, "loop clause must be invariant or decreases")
				}
			}
		}
	}
	if len(errs) > 0 {
		return fmt.Errorf("%s", strings.Join(errs, "\n  "))
	}
	return nil
}

func (c *Contract) expandLets(e *SExpr) *SExpr {
	if len(c.Lets) == 0 {
		return e
	}
	// later lets may use earlier ones: expand from last to first
	for i := len(c.Lets) - 1; i >= 0; i-- {
		e = e.substIdent(map[string]*SExpr{c.Lets[i].Name: c.Lets[i].E})
	}
	return e
}

func splitTopLevel(s string, sep byte) []string {
	var out []string
	depth := 0
	last := 0
	for i := 0; i < len(s); i++ {
		switch s[i] {
		case '(', '[':
			depth++
		case ')', ']':
			depth--
		default:
			if s[i] == sep && depth == 0 {
				out = append(out, s[last:i])
				last = i + 1
			}
		}
	}
	out = append(out, s[last:])
	return out
}

// resolveType evaluates a Go type expression in the scope of pkg.
func (eng *Engine) resolveType(pkg *packages.Package, text string) (types.Type, error) {
	text = strings.TrimSpace(text)
	switch text {
	case "real":
		return types.Typ[types.Float64], nil
	}
	if strings.HasPrefix(text, "*") {
		t, err := eng.resolveType(pkg, text[1:])
		if err != nil {
			return nil, err
		}
		return types.NewPointer(t), nil
	}
	if strings.HasPrefix(text, "[]") {
		t, err := eng.resolveType(pkg, text[2:])
		if err != nil {
			return nil, err
		}
		return types.NewSlice(t), nil
	}
	if i := strings.Index(text, "."); i > 0 && !strings.ContainsAny(text, "[]() ") {
		for _, p := range eng.ByName[text[:i]] {
			if obj, ok := p.Types.Scope().Lookup(text[i+1:]).(*types.TypeName); ok {
				return obj.Type(), nil
			}
		}
	}
	tv, err := types.Eval(eng.Fset, pkg.Types, token.NoPos, text)
	if err != nil {
		// try imports of the package by name
		return nil, fmt.Errorf("cannot resolve type %q: %v", text, err)
	}
	if !tv.IsType() {
		return nil, fmt.Errorf("%q is not a type", text)
	}
	return tv.Type, nil
}

// parseSpecFunc handles: spec func name(p T, ...) R = body   |  pred name(p T,...) = body  | abstract func name(p T) R
func (eng *Engine) parseSpecFunc(pkg *packages.Package, rc rawClause, file string) error {
	text := rc.text
	if rc.kw == "spec" || rc.kw == "abstract" || rc.kw == "opaque" {
		if !strings.HasPrefix(text, "func") {
			return fmt.Errorf("expected 'spec func'")
		}
		text = strings.TrimSpace(text[4:])
	}
	op := strings.Index(text, "(")
	if op < 0 {
		return fmt.Errorf("spec func: missing '('")
	}
	name := strings.TrimSpace(text[:op])
	// find matching paren
	depth := 0
	cp := -1
	for i := op; i < len(text); i++ {
		if text[i] == '(' {
			depth++
		} else if text[i] == ')' {
			depth--
			if depth == 0 {
				cp = i
				break
			}
		}
	}
	if cp < 0 {
		return fmt.Errorf("spec func: unbalanced parens")
	}
	params := text[op+1 : cp]
	rest := strings.TrimSpace(text[cp+1:])
	var resT, body string
	if eq := strings.Index(rest, "="); eq >= 0 && rc.kw != "abstract" {
		resT = strings.TrimSpace(rest[:eq])
		body = strings.TrimSpace(rest[eq+1:])
	} else {
		resT = rest
	}
	if rc.kw == "pred" || resT == "" {
		resT = "bool"
	}
	sf := &SpecFunc{Name: name, PkgPath: pkg.PkgPath, Line: rc.line, File: file, Opaque: rc.kw == "opaque"}
	// params: "a, b T, c U"
	var pend []string
	for _, part := range splitTopLevel(params, ',') {
		part = strings.TrimSpace(part)
		if part == "" {
			continue
		}
		sp := strings.IndexAny(part, " \t")
		if sp < 0 {
			pend = append(pend, part)
			continue
		}
		n := part[:sp]
		t, err := eng.resolveType(pkg, part[sp+1:])
		if err != nil {
			return err
		}
		for _, pn := range pend {
			sf.Params = append(sf.Params, SpecParam{pn, t})
		}
		pend = nil
		sf.Params = append(sf.Params, SpecParam{n, t})
	}
	if len(pend) > 0 {
		return fmt.Errorf("spec func %s: parameters without type", name)
	}
	rt, err := eng.resolveType(pkg, resT)
	if err != nil {
		return err
	}
	sf.Result = rt
	if body != "" {
		e, err := parseSpecExpr(body)
		if err != nil {
			return err
		}
		sf.Body = e
		sf.Recursive = mentionsCall(e, name)
	}
	key := pkg.PkgPath + "." + name
	if _, dup := eng.SpecFuncs[key]; dup {
		return fmt.Errorf("duplicate spec func %s", name)
	}
	eng.SpecFuncs[key] = sf
	return nil
}

func mentionsCall(e *SExpr, name string) bool {
	if e == nil {
		return false
	}
	if e.K == ECall {
		if e.X.K == EIdent && e.X.Op == name {
			return true
		}
		if e.X.K == ESelect && e.X.Op == name {
			return true
		}
	}
	if mentionsCall(e.X, name) || mentionsCall(e.Y, name) || mentionsCall(e.Z, name) {
		return true
	}
	for _, a := range e.Args {
		if mentionsCall(a, name) {
			return true
		}
	}
	return false
}

// bindHeader parses the Go-style header and binds it to the SSA function.
func (eng *Engine) bindHeader(pkg *packages.Package, c *Contract) error {
	anonParent, anonOrd := "", -1
	if strings.HasPrefix(c.Header, "anon(") {
		// anon(parent, n) (params) (results): the n-th function literal of package-level function parent
		cl := strings.Index(c.Header, ")")
		if cl < 0 {
			return fmt.Errorf("bad anon header %q", c.Header)
		}
		parts := strings.Split(c.Header[5:cl], ",")
		if len(parts) != 2 {
			return fmt.Errorf("bad anon header %q", c.Header)
		}
		anonParent = strings.TrimSpace(parts[0])
		fmt.Sscanf(strings.TrimSpace(parts[1]), "%d", &anonOrd)
		c.Header = "zzanon" + c.Header[cl+1:]
	}
	src := "package p\nfunc " + c.Header + "\n"
	if c.Kind == "lemma" {
		// lemma name(params)
		src = "package p\nfunc " + c.Header + "\n"
	}
	f, err := parser.ParseFile(token.NewFileSet(), "h.go", src, 0)
	if err != nil {
		return fmt.Errorf("cannot parse header %q: %v", c.Header, err)
	}
	if len(f.Decls) != 1 {
		return fmt.Errorf("bad header %q", c.Header)
	}
	fd, ok := f.Decls[0].(*ast.FuncDecl)
	if !ok {
		return fmt.Errorf("bad header %q", c.Header)
	}
	c.Name = fd.Name.Name
	typeText := func(e ast.Expr) string {
		return types.ExprString(e)
	}
	var recvType string
	if fd.Recv != nil && len(fd.Recv.List) == 1 {
		r := fd.Recv.List[0]
		recvType = typeText(r.Type)
		rn := "this"
		if len(r.Names) == 1 {
			rn = r.Names[0].Name
		}
		c.ParamNames = append(c.ParamNames, rn)
	}
	for _, p := range fd.Type.Params.List {
		if len(p.Names) == 0 {
			c.ParamNames = append(c.ParamNames, "_")
		}
		for _, n := range p.Names {
			c.ParamNames = append(c.ParamNames, n.Name)
		}
	}
	if fd.Type.Results != nil {
		for _, r := range fd.Type.Results.List {
			if len(r.Names) == 0 {
				c.ResultNames = append(c.ResultNames, "_")
			}
			for _, n := range r.Names {
				c.ResultNames = append(c.ResultNames, n.Name)
			}
		}
	}
	if c.Kind == "lemma" {
		for _, p := range fd.Type.Params.List {
			t, err := eng.resolveType(pkg, typeText(p.Type))
			if err != nil {
				return err
			}
			for range p.Names {
				c.ParamTypes = append(c.ParamTypes, t)
			}
		}
		c.Name = pkg.PkgPath + "." + c.Name
		return nil
	}
	spkg := eng.SPkgs[pkg.PkgPath]
	var fn *ssa.Function
	var sig *types.Signature
	if anonParent != "" {
		parent := spkg.Func(anonParent)
		if parent == nil || anonOrd < 0 || anonOrd >= len(parent.AnonFuncs) {
			return fmt.Errorf("binding: function literal %d of %s.%s not found", anonOrd, pkg.Name, anonParent)
		}
		fn = parent.AnonFuncs[anonOrd]
		sig = fn.Signature
	} else if recvType == "" {
		fn = spkg.Func(c.Name)
		if fn == nil {
			return fmt.Errorf("binding: function %s.%s not found (renamed or removed?)", pkg.Name, c.Name)
		}
		sig = fn.Signature
	} else {
		base := strings.TrimPrefix(recvType, "*")
		obj := pkg.Types.Scope().Lookup(base)
		tn, ok := obj.(*types.TypeName)
		if !ok {
			return fmt.Errorf("binding: receiver type %s not found", base)
		}
		var T types.Type = tn.Type()
		if _, isI := T.Underlying().(*types.Interface); isI {
			c.Kind = "iface"
			m, _, _ := types.LookupFieldOrMethod(T, true, pkg.Types, c.Name)
			mf, ok := m.(*types.Func)
			if !ok {
				return fmt.Errorf("binding: interface method %s.%s not found", base, c.Name)
			}
			sig = mf.Type().(*types.Signature)
			c.ParamTypes = append(c.ParamTypes, T)
			for i := 0; i < sig.Params().Len(); i++ {
				c.ParamTypes = append(c.ParamTypes, sig.Params().At(i).Type())
			}
			for i := 0; i < sig.Results().Len(); i++ {
				c.ResultTypes = append(c.ResultTypes, sig.Results().At(i).Type())
			}
			c.Name = mf.FullName()
			eng.IfaceCons[mf.FullName()] = c
			return eng.checkArity(c, sig, true)
		}
		if strings.HasPrefix(recvType, "*") {
			T = types.NewPointer(T)
		}
		sel := eng.Prog.MethodSets.MethodSet(T).Lookup(pkg.Types, c.Name)
		if sel == nil {
			// maybe a func-typed field contract
			if c.Kind == "field" {
				st, ok := tn.Type().Underlying().(*types.Struct)
				if ok {
					for i := 0; i < st.NumFields(); i++ {
						if st.Field(i).Name() == c.Name {
							fsig, ok := st.Field(i).Type().Underlying().(*types.Signature)
							if !ok {
								return fmt.Errorf("field %s.%s is not func-typed", base, c.Name)
							}
							// for field contracts the "receiver" name is not a parameter of the func value
							c.ParamNames = c.ParamNames[1:]
							for j := 0; j < fsig.Params().Len(); j++ {
								c.ParamTypes = append(c.ParamTypes, fsig.Params().At(j).Type())
							}
							for j := 0; j < fsig.Results().Len(); j++ {
								c.ResultTypes = append(c.ResultTypes, fsig.Results().At(j).Type())
							}
							c.Name = pkg.PkgPath + "." + base + "." + c.Name
							eng.FieldCons[c.Name] = c
							return eng.checkArity(c, fsig, false)
						}
					}
				}
			}
			return fmt.Errorf("binding: method (%s).%s not found (renamed or removed?)", recvType, c.Name)
		}
		fn = eng.Prog.MethodValue(sel)
		if fn == nil {
			return fmt.Errorf("binding: no SSA function for (%s).%s", recvType, c.Name)
		}
		sig = fn.Signature
	}
	c.Fn = fn
	c.Name = fn.String()
	if sig.Recv() != nil {
		c.ParamTypes = append(c.ParamTypes, sig.Recv().Type())
	}
	for i := 0; i < sig.Params().Len(); i++ {
		c.ParamTypes = append(c.ParamTypes, sig.Params().At(i).Type())
	}
	for i := 0; i < sig.Results().Len(); i++ {
		c.ResultTypes = append(c.ResultTypes, sig.Results().At(i).Type())
	}
	return eng.checkArity(c, sig, sig.Recv() != nil)
}

func (eng *Engine) checkArity(c *Contract, sig *types.Signature, hasRecv bool) error {
	np := sig.Params().Len()
	if hasRecv {
		np++
	}
	if len(c.ParamNames) != np {
		return fmt.Errorf("binding: %s has %d parameters, contract header names %d (signature changed?)", c.Name, np, len(c.ParamNames))
	}
	if len(c.ResultNames) != sig.Results().Len() {
		return fmt.Errorf("binding: %s has %d results, contract header names %d", c.Name, sig.Results().Len(), len(c.ResultNames))
	}
	return nil
}

var funcIDMu sync.Mutex

// funcIDTerm: the integer that stands for a named function used as a value (distinct per function, never 0).
func (eng *Engine) funcIDTerm(f *ssa.Function) *Term {
	funcIDMu.Lock()
	defer funcIDMu.Unlock()
	if eng.funcIDs == nil {
		eng.funcIDs = map[*ssa.Function]int64{}
	}
	id, ok := eng.funcIDs[f]
	if !ok {
		id = 2000000 + int64(len(eng.funcIDs))
		eng.funcIDs[f] = id
	}
	return IntLit64(id)
}

// nearestPkg resolves a package name seen from package `from`: an import of `from` first, otherwise the module package of
// that name sharing the longest path prefix with `from` (datamatrix/encoder sees datamatrix/decoder as "decoder").
func (eng *Engine) nearestPkg(from, name string) string {
	if pkg := eng.PPkgs[from]; pkg != nil {
		for _, imp := range pkg.Types.Imports() {
			if imp.Name() == name {
				return imp.Path()
			}
		}
	}
	best, bestN := "", -1
	for _, p := range eng.ByName[name] {
		n := 0
		for n < len(p.PkgPath) && n < len(from) && p.PkgPath[n] == from[n] {
			n++
		}
		if n > bestN || (n == bestN && p.PkgPath < best) {
			best, bestN = p.PkgPath, n
		}
	}
	return best
}

// lookupSpecFunc resolves name (optionally qualified by package name) from the point of view of pkgPath.
func (eng *Engine) lookupSpecFunc(fromPkg string, qual string, name string) *SpecFunc {
	if qual != "" {
		if pp := eng.nearestPkg(fromPkg, qual); pp != "" {
			if sf, ok := eng.SpecFuncs[pp+"."+name]; ok {
				return sf
			}
		}
		for _, p := range eng.ByName[qual] {
			if sf, ok := eng.SpecFuncs[p.PkgPath+"."+name]; ok {
				return sf
			}
		}
		return nil
	}
	if sf, ok := eng.SpecFuncs[fromPkg+"."+name]; ok {
		return sf
	}
	var found *SpecFunc
	for _, sf := range eng.SpecFuncs {
		if sf.Name == name {
			if found != nil {
				return nil // ambiguous
			}
			found = sf
		}
	}
	return found
}
