package main

import (
	"encoding/json"
	"flag"
	"fmt"
	"os"
	"sort"
	"strings"
	"sync"
	"time"

	"golang.org/x/tools/go/ssa"
)

type FuncResult struct {
	Name             string
	Fn               *ssa.Function
	Con              *Contract
	VC               *VC
	Obls             []*Obl
	Rounds           int
	Millis           int64
	Dropped          []string // auto invariant candidates dropped
	droppedUndecided int      // ... of which given up without a refutation (unknown / timeout)
}

// verifyFunc runs VC generation + Houdini pruning of automatic invariant candidates + solving.
func verifyFunc(eng *Engine, fn *ssa.Function, con *Contract, opts SolveOpts) *FuncResult {
	r := verifyFuncOnce(eng, fn, con, opts, 1)
	if r.droppedUndecided > 0 {
		undecided := false
		for _, o := range r.Obls {
			if !o.WantSat && !o.discharged() && o.Status != "sat" && o.Status != "disagree" {
				undecided = true
			}
		}
		if undecided {
			// some automatic invariant candidate was given up without being refuted and a proof is now missing: the
			// outcome may depend on machine load, so the whole function is verified once more with four times the budgets
			r2 := verifyFuncOnce(eng, fn, con, opts, 4)
			r2.Millis += r.Millis
			return r2
		}
	}
	return r
}

func verifyFuncOnce(eng *Engine, fn *ssa.Function, con *Contract, opts SolveOpts, scale int) *FuncResult {
	t0 := time.Now()
	res := &FuncResult{Name: shortFuncName(fn), Fn: fn, Con: con}
	disabled := map[string]bool{}
	var vc *VC
	for round := 0; round < 6; round++ {
		res.Rounds = round + 1
		vc = eng.buildFuncVC(fn, con, disabled, false)
		var autos []*Obl
		for _, o := range vc.obls {
			if o.Auto > 0 {
				autos = append(autos, o)
			}
		}
		if len(autos) == 0 {
			break
		}
		aopts := opts
		aopts.AllSolvers = false
		aopts.SingleMs = 6000 * scale
		aopts.QuickMs = 3000 * scale
		solveAutoOnly(vc, autos, aopts)
		dropped := false
		for _, o := range autos {
			if o.Status != "unsat" && !disabled[o.AutoDesc] {
				disabled[o.AutoDesc] = true
				res.Dropped = append(res.Dropped, o.AutoDesc)
				dropped = true
				if o.Status != "sat" {
					res.droppedUndecided++
				}
			}
		}
		if !dropped {
			break
		}
	}
	if con != nil && con.Opts["check"] != "" {
		// partial check: only the named obligation kinds are obligations ("asserts" = call-site assertions; otherwise
		// kind prefixes such as safety.make). Everything else about the function is outside the claim.
		want := strings.Split(con.Opts["check"], ",")
		var keep []*Obl
		for _, o := range vc.obls {
			ok := o.Kind == "vacuity"
			for _, w := range want {
				w = strings.TrimSpace(w)
				if w == "asserts" && o.Kind == "assert" {
					ok = true
				}
				if w != "asserts" && strings.HasPrefix(o.Kind, w) {
					ok = true
				}
			}
			if ok {
				keep = append(keep, o)
			}
		}
		vc.obls = keep
		vc.assumed[shortFuncName(fn)+": partial check (opt check="+con.Opts["check"]+"): only these obligation kinds are checked here; no other safety, postcondition or frame obligation of this function is part of the claim, and preconditions of its callees are assumed, so executions that violate one are outside the claim"] = true
	}
	res.VC = vc
	solveVC(vc, vc.obls, opts)
	res.Obls = vc.obls
	res.Millis = time.Since(t0).Milliseconds()
	return res
}

// solveAutoOnly checks only the auto-invariant obligations with the incremental script (no racing).
func solveAutoOnly(vc *VC, autos []*Obl, opts SolveOpts) {
	os.MkdirAll(opts.WorkDir, 0o755)
	script := vc.incrementalScript(autos)
	file := fmt.Sprintf("%s/%s.auto.smt2", opts.WorkDir, sanitizeFile(vc.funcName()))
	os.WriteFile(file, []byte(script), 0o644)
	defer os.Remove(file)
	primary := allSolvers[0]
	solveSem <- struct{}{}
	out, _ := runSolver(primary, file, opts.QuickMs, time.Duration(opts.QuickMs*len(autos)+10000)*time.Millisecond)
	<-solveSem
	r := parseIncremental(out)
	var undecided []*Obl
	for _, o := range autos {
		o.Status = r[o.Name]
		if o.Status == "" {
			o.Status = "unknown"
		}
		if o.Status != "unsat" && o.Status != "sat" && strings.Contains(o.AutoDesc, ":frame(") {
			// frame candidates are what the frame obligations at the returns rest on; the other candidates (bounds
			// of counters) are covered by the function-level retry in verifyFunc
			undecided = append(undecided, o)
		}
	}
	// a candidate is dropped for good only when it is refuted (sat) or still undecided after a second attempt with a
	// much larger budget: which candidates survive must not depend on how busy the machine is
	if len(undecided) > 0 && len(undecided) <= 24 {
		script := vc.incrementalScript(undecided)
		file2 := fmt.Sprintf("%s/%s.auto2.smt2", opts.WorkDir, sanitizeFile(vc.funcName()))
		os.WriteFile(file2, []byte(script), 0o644)
		defer os.Remove(file2)
		big := opts.QuickMs * 4
		solveSem <- struct{}{}
		out2, _ := runSolver(primary, file2, big, time.Duration(big*len(undecided)+10000)*time.Millisecond)
		<-solveSem
		r2 := parseIncremental(out2)
		for _, o := range undecided {
			if st := r2[o.Name]; st != "" {
				o.Status = st
			}
		}
	}
}

func verifyLemma(eng *Engine, lem *Contract, opts SolveOpts) *FuncResult {
	t0 := time.Now()
	vc := eng.buildLemmaVC(lem)
	res := &FuncResult{Name: vc.funcName(), Con: lem, VC: vc}
	solveVC(vc, vc.obls, opts)
	res.Obls = vc.obls
	res.Millis = time.Since(t0).Milliseconds()
	return res
}

func printResult(r *FuncResult, verbose bool) (ok bool) {
	ok = true
	n, d := 0, 0
	for _, o := range r.Obls {
		n++
		if o.discharged() {
			d++
		} else {
			ok = false
		}
	}
	if len(r.VC.specErrs) > 0 {
		ok = false
	}
	status := "OK  "
	if !ok {
		status = "FAIL"
	}
	fmt.Printf("%s %-70s %3d/%3d obligations  %5dms  rounds=%d\n", status, r.Name, d, n, r.Millis, r.Rounds)
	for _, e := range r.VC.specErrs {
		fmt.Printf("      spec error: %s\n", e)
	}
	for _, u := range r.VC.unmodeled {
		fmt.Printf("      unmodelled: %s\n", u)
	}
	for _, o := range r.Obls {
		if !o.discharged() || verbose {
			pos := ""
			if o.Pos.IsValid() {
				p := r.VC.eng.Fset.Position(o.Pos)
				pos = fmt.Sprintf(" %s:%d", strings.TrimPrefix(p.Filename, r.VC.eng.RepoDir+"/"), p.Line)
			}
			fmt.Printf("      [%s] %s%s  %s  (%s %s)\n", o.Status, o.Name, pos, o.Desc, o.Solver, o.Output)
		}
	}
	if verbose {
		for _, dd := range r.Dropped {
			fmt.Printf("      dropped auto candidate: %s\n", dd)
		}
	}
	return ok
}

func findFuncs(eng *Engine, pattern string) []*ssa.Function {
	var out []*ssa.Function
	for _, f := range eng.AllFuncs {
		if strings.Contains(shortFuncName(f), pattern) {
			out = append(out, f)
		}
	}
	sort.Slice(out, func(i, j int) bool { return shortFuncName(out[i]) < shortFuncName(out[j]) })
	return out
}

func main() {
	if len(os.Args) < 2 {
		fmt.Println("usage: govc <func|check|list|sweep|replay> ...")
		os.Exit(2)
	}
	cmd := os.Args[1]
	fs := flag.NewFlagSet(cmd, flag.ExitOnError)
	repo := fs.String("repo", "/repo", "repository root")
	work := fs.String("work", "", "scratch directory for SMT files")
	keep := fs.Bool("keep", false, "keep SMT files")
	verbose := fs.Bool("v", false, "verbose")
	prop := fs.String("property", "", "property id")
	tier := fs.String("tier", "quick", "quick|thorough")
	exact := fs.Bool("exact", false, "exact function name match")
	fs.Parse(os.Args[2:])
	if *work == "" {
		d, _ := os.MkdirTemp("/var/tmp", "govc-")
		*work = d
		if !*keep {
			defer os.RemoveAll(d)
		}
	}
	opts := SolveOpts{WorkDir: *work, QuickMs: 4000, SingleMs: 30000, KeepFiles: *keep}
	switch cmd {
	case "func":
		eng, err := loadEngine(*repo)
		if err != nil {
			fmt.Println("load:", err)
			os.Exit(2)
		}
		eng.computeEffects()
		allOK := true
		for _, pat := range fs.Args() {
			if lem := eng.findLemmaByPattern(pat); lem != nil {
				if !printResult(verifyLemma(eng, lem, opts), *verbose) {
					allOK = false
				}
				continue
			}
			for _, fn := range findFuncs(eng, pat) {
				if *exact && shortFuncName(fn) != pat {
					continue
				}
				r := verifyFunc(eng, fn, eng.Contracts[fn], opts)
				if !printResult(r, *verbose) {
					allOK = false
				}
			}
		}
		if !allOK {
			os.Exit(1)
		}
	case "sweep":
		// zero-annotation safety sweep over every function whose name contains one of the patterns (information only)
		eng, err := loadEngine(*repo)
		if err != nil {
			fmt.Println("load:", err)
			os.Exit(2)
		}
		eng.computeEffects()
		var fns []*ssa.Function
		for _, pat := range fs.Args() {
			fns = append(fns, findFuncs(eng, pat)...)
		}
		opts.SingleMs = 5000
		opts.QuickMs = 2000
		type out struct {
			name         string
			ok           bool
			n, d         int
			fails, notes []string
		}
		res := make([]out, len(fns))
		var wg sync.WaitGroup
		sem := make(chan struct{}, 8)
		for i, fn := range fns {
			wg.Add(1)
			go func(i int, fn *ssa.Function) {
				defer wg.Done()
				sem <- struct{}{}
				defer func() { <-sem }()
				defer func() {
					if r := recover(); r != nil {
						res[i] = out{name: shortFuncName(fn), notes: []string{fmt.Sprint("engine panic: ", r)}}
					}
				}()
				r := verifyFunc(eng, fn, eng.Contracts[fn], opts)
				o := out{name: r.Name, ok: true}
				for _, ob := range r.Obls {
					o.n++
					if ob.discharged() {
						o.d++
					} else {
						o.ok = false
						pos := ""
						if ob.Pos.IsValid() {
							p := eng.Fset.Position(ob.Pos)
							pos = fmt.Sprintf("%s:%d", strings.TrimPrefix(p.Filename, eng.RepoDir+"/"), p.Line)
						}
						o.fails = append(o.fails, fmt.Sprintf("%s [%s] %s %s", strings.TrimPrefix(ob.Name, r.Name), ob.Status, pos, ob.Desc))
					}
				}
				o.notes = r.VC.unmodeled
				res[i] = o
			}(i, fn)
		}
		wg.Wait()
		okc := 0
		for _, o := range res {
			st := "OK  "
			if !o.ok {
				st = "FAIL"
			} else {
				okc++
			}
			fmt.Printf("%s %-70s %d/%d\n", st, o.name, o.d, o.n)
			for _, f := range o.fails {
				if len(f) > 200 {
					f = f[:200]
				}
				fmt.Println("      ", f)
			}
			for _, n := range o.notes {
				fmt.Println("       unmodelled:", n)
			}
		}
		fmt.Printf("sweep: %d/%d functions with every safety obligation discharged\n", okc, len(res))
	case "check":
		os.Exit(runCheck(*repo, *prop, *tier, opts))
	case "replay":
		// replay <file>: re-establish a reported violation on the current tree. Exit 1 when it still shows (the replayed
		// input misbehaves on the real code / the obligation is still undischarged), 0 when it no longer does.
		if fs.NArg() < 1 {
			fmt.Println("usage: govc replay <replay file>")
			os.Exit(2)
		}
		raw, err := os.ReadFile(fs.Arg(0))
		if err != nil {
			fmt.Println(err)
			os.Exit(2)
		}
		eng, err := loadEngine(*repo)
		if err != nil {
			fmt.Println("load:", err)
			os.Exit(2)
		}
		eng.computeEffects()
		if strings.Contains(string(raw), "\"failing_inputs\"") {
			ev := Evidence{Coverage: map[string]interface{}{}}
			exit := 0
			addBounded(eng, "C04", "quick", &ev, &exit, verifDir())
			if exit == 0 {
				fmt.Println("bounded stand-in passes on the current tree:", ev.Coverage["bounded_stand_in"])
			}
			os.Exit(exit)
		}
		var rf ReplayFile
		if err := json.Unmarshal(raw, &rf); err != nil {
			fmt.Println("not a replay file:", err)
			os.Exit(2)
		}
		fmt.Printf("obligation %s\n  %s\n  reported: %s %s\n", rf.Obligation, rf.Desc, rf.Status, rf.Note)
		if rf.TestSource != "" {
			scratch, _ := os.MkdirTemp("/var/tmp", "govc-replay-")
			defer os.RemoveAll(scratch)
			rf.Reproduced, rf.Note = false, ""
			runReplay(eng, &rf, scratch)
			fmt.Printf("  replay of the stored input on the current tree: reproduced=%v (%s)\n", rf.Reproduced, rf.Note)
			if rf.Reproduced {
				os.Exit(1)
			}
			os.Exit(0)
		}
		// no input was found when the violation was reported: re-verify the item and look at the obligation
		item := strings.SplitN(rf.Obligation, "#", 2)[0]
		var r *FuncResult
		if strings.HasPrefix(item, "lemma:") {
			if lem := eng.findLemmaByPattern(item); lem != nil {
				r = verifyLemma(eng, lem, opts)
			}
		} else {
			for _, fn := range findFuncs(eng, item) {
				if shortFuncName(fn) == item {
					r = verifyFunc(eng, fn, eng.Contracts[fn], opts)
				}
			}
		}
		if r == nil {
			fmt.Println("  the contract item", item, "cannot be found on the current tree (binding failure): still a violation")
			os.Exit(1)
		}
		for _, e := range r.VC.specErrs {
			fmt.Println("  contract error:", e)
		}
		found := false
		for _, o := range r.Obls {
			if o.Name == rf.Obligation {
				found = true
				fmt.Printf("  on the current tree: %s (%s)\n", o.Status, o.Output)
				if !o.discharged() {
					os.Exit(1)
				}
			}
		}
		if !found && len(r.VC.specErrs) > 0 {
			os.Exit(1)
		}
		if !found {
			fmt.Println("  the obligation is no longer generated (discharged trivially or renumbered); the item verifies:", printResult(r, false))
		}
		os.Exit(0)
	case "list":
		eng, err := loadEngine(*repo)
		if err != nil {
			fmt.Println("load:", err)
			os.Exit(2)
		}
		for _, c := range eng.Items {
			fmt.Printf("%-6s %-60s props=%v mode=%s req=%d ens=%d\n", c.Kind, shortName(c.Name), c.Props, c.Mode, len(c.Requires), len(c.Ensures))
		}
	default:
		fmt.Println("unknown command", cmd)
		os.Exit(2)
	}
}

func (eng *Engine) findLemmaByPattern(p string) *Contract {
	if !strings.HasPrefix(p, "lemma:") {
		return nil
	}
	p = strings.TrimPrefix(p, "lemma:")
	for _, c := range eng.Items {
		if c.Kind == "lemma" && strings.HasSuffix(c.Name, "."+p) {
			return c
		}
	}
	return nil
}
