package main

import (
	"fmt"
	"go/token"
	"go/types"
	"math/big"
	"sort"
	"strings"

	"golang.org/x/tools/go/ssa"
)

// ---------------------------------------------------------------- state

type State struct {
	guard  *Term
	locals map[*ssa.Alloc]*Term
	heap   map[string]*Term     // field arrays, elem arrays, cells, globals, "wm"
	base   string               // name prefix of the default (not yet touched) heap components
	laddr  map[*ssa.Alloc]*Addr // local cells currently holding an interior pointer
	dead   bool
}

func (s *State) clone() *State {
	n := &State{guard: s.guard, base: s.base, locals: make(map[*ssa.Alloc]*Term, len(s.locals)), heap: make(map[string]*Term, len(s.heap))}
	for k, v := range s.locals {
		n.locals[k] = v
	}
	for k, v := range s.heap {
		n.heap[k] = v
	}
	if len(s.laddr) > 0 {
		n.laddr = map[*ssa.Alloc]*Addr{}
		for k, v := range s.laddr {
			n.laddr[k] = v
		}
	}
	return n
}

// ---------------------------------------------------------------- addresses and values

type AKind int

const (
	ALocal AKind = iota
	AField
	AElem
	AGlobal
	ACell
)

type Proj struct {
	Field int
	Idx   *Term
	IsIdx bool
}

type Addr struct {
	Kind  AKind
	Alloc *ssa.Alloc
	Key   string
	Ref   *Term
	Idx   *Term
	Path  []Proj
	Nil   *Term      // non-nil: condition under which this (merged) interior pointer is nil
	Root  types.Type // type stored at the root location
	Typ   types.Type // type of the pointee (after path)
}

type Val struct {
	T     *Term
	Addr  *Addr
	Tuple []*Val
	Fn    *ssa.Function // function value (for closures / func values)
	Go    types.Type
}

// ---------------------------------------------------------------- obligations

type Obl struct {
	Name     string
	Kind     string // safety.index, safety.nil, safety.div, safety.make, safety.slice, safety.assert, safety.panic, pre, post, inv-init, inv-pres, dec, frame, lemma, table, vacuity
	Guard    *Term
	Cond     *Term
	NFacts   int
	Pos      token.Pos
	Desc     string
	WantSat  bool // vacuity: require sat of Guard (Cond ignored)
	Auto     int  // >0: auto invariant candidate id
	AutoDesc string
	Local    []*Term // facts that are only asserted for this obligation (inside its push/pop scope)
	RetSt    *State
	RetVals  []*Term
	// results
	Status string // "unsat","sat","unknown","timeout","error"
	Solver string
	Millis int64
	Model  string
	Output string
}

type VC struct {
	eng     *Engine
	fn      *ssa.Function
	con     *Contract
	mode    string
	pkgPath string

	declSeen map[string]bool
	decls    []string
	facts    []*Term
	obls     []*Obl
	nfresh   int

	dataSorts     map[string]*Sort
	dataOrder     []*Sort
	heapSorts     map[string]*Sort
	specUF        map[string]*specUFInfo
	pendingUnfold []*ufApp
	unfoldSeen    map[string]bool
	heapTrace     map[string]bool

	entry     *State
	params    []*Term // parameter terms of the top function (receiver first)
	paramVals []*Val
	strConsts map[string]*Term
	strList   []string

	assumed           map[string]bool // names of assumptions / stubs used
	unmodeled         []string        // reasons the function is outside the modelled subset
	calleesNoContract map[string]bool
	calleesContract   map[string]bool
	inlined           map[string]bool
	oblCount          map[string]int
	autoInvs          map[int]*autoInv
	disabledAuto      map[string]bool
	overflow          bool
	loopsSeen         int
	lemmaMode         bool
	noAuto            bool
	realMul           bool // lemma VCs proved with genuine non-linear multiplication
	nauto             int
	specErrs          []string
	usedLemmas        []string
	places            *framePlaces
	tableFacts        int
	noGround          bool
	groundVals        map[string]*Term // table cells with literal values (constant propagation into specifications)
	callCount         map[string]int
	assertsSeen       int
	assertHit         map[string]bool
	foldedCases       int
	callSites         map[string][]token.Pos // per callee name: call positions of the function under verification, in source order
	defCache          map[string]*Term       // see defMap
	defCacheN         int
	sliceDefs         map[string]*Term // named constants defined as mk-slice(...): their components fold
	tableEpoch        int
}

type specUFInfo struct {
	sf       *SpecFunc
	name     string
	heapKeys []string
	argSorts []*Sort
	res      *Sort
	probing  bool
}

type ufApp struct {
	info  *specUFInfo
	app   *Term
	st    *State
	vals  []*SVal
	depth int
}

func newVC(eng *Engine, fn *ssa.Function, con *Contract) *VC {
	vc := &VC{eng: eng, fn: fn, con: con, mode: "int",
		declSeen: map[string]bool{}, dataSorts: map[string]*Sort{}, heapSorts: map[string]*Sort{},
		specUF: map[string]*specUFInfo{}, strConsts: map[string]*Term{}, assumed: map[string]bool{},
		calleesNoContract: map[string]bool{}, calleesContract: map[string]bool{}, inlined: map[string]bool{},
		oblCount: map[string]int{}, autoInvs: map[int]*autoInv{}, disabledAuto: map[string]bool{}}
	vc.noGround = true
	if con != nil {
		// opt ground=on: reads of dumped table cells at literal positions are replaced by their values while
		// translating specifications (needed where the specification applies bit operations to table entries)
		vc.noGround = con.Opts["ground"] != "on"
		vc.mode = con.Mode
		vc.pkgPath = con.PkgPath
		if con.Opts["overflow"] == "on" {
			vc.overflow = true
		}
	}
	if fn != nil && fn.Pkg != nil {
		vc.pkgPath = fn.Pkg.Pkg.Path()
	}
	return vc
}

func (vc *VC) declare(name string, s *Sort) *Term {
	n := smtName(name)
	if !vc.declSeen[n] {
		vc.declSeen[n] = true
		vc.decls = append(vc.decls, fmt.Sprintf("(declare-const %s %s)", n, s.String()))
	}
	return Atom(n, s)
}

func (vc *VC) declareFun(name string, args []*Sort, res *Sort) string {
	n := smtName(name)
	if !vc.declSeen[n] {
		vc.declSeen[n] = true
		var as []string
		for _, a := range args {
			as = append(as, a.String())
		}
		vc.decls = append(vc.decls, fmt.Sprintf("(declare-fun %s (%s) %s)", n, strings.Join(as, " "), res.String()))
	}
	return n
}

func (vc *VC) fresh(hint string, s *Sort) *Term {
	vc.nfresh++
	return vc.declare(fmt.Sprintf("%s!%d", hint, vc.nfresh), s)
}

// define introduces a named constant equal to t (keeps the script linear in size).
func (vc *VC) define(hint string, t *Term) *Term {
	if len(t.Args) == 0 && t.Op != "forall" && t.Op != "exists" {
		return t
	}
	if _, ok := intLitVal(t); ok {
		return t
	}
	c := vc.fresh(hint, t.S)
	vc.facts = append(vc.facts, Eq(c, t))
	if t.Op == "mk-slice" {
		if vc.sliceDefs == nil {
			vc.sliceDefs = map[string]*Term{}
		}
		vc.sliceDefs[c.Op] = t
	}
	return c
}

func (vc *VC) assume(guard *Term, f *Term) {
	if f == nil || f.IsTrue() {
		return
	}
	vc.facts = append(vc.facts, Implies(guard, f))
	vc.expandBounded(guard, f)
}

// expandBounded: a universally quantified hypothesis over one variable whose range is bounded by two literals
// (forall k :: lo <= k && k < hi ==> P(k), at most 64 values) is also assumed instance by instance, so that it is
// usable without quantifier instantiation (e.g. the per-bit postcondition of ReadBits at a call with a literal width).
func (vc *VC) expandBounded(guard, f *Term) {
	var rec func(t *Term, wrap func(*Term) *Term, depth int)
	rec = func(t *Term, wrap func(*Term) *Term, depth int) {
		if depth > 6 {
			return
		}
		switch {
		case t.Op == "and":
			for _, a := range t.Args {
				rec(a, wrap, depth+1)
			}
		case t.Op == "=>" && len(t.Args) == 2:
			ante := t.Args[0]
			rec(t.Args[1], func(x *Term) *Term { return wrap(Implies(ante, x)) }, depth+1)
		case t.Op == "forall" && len(t.Bound) == 1 && len(t.Args) == 1:
			k := t.Bound[0]
			body := t.Args[0]
			if body.Op != "=>" || len(body.Args) != 2 {
				return
			}
			var conj []*Term
			if body.Args[0].Op == "and" {
				conj = body.Args[0].Args
			} else {
				conj = []*Term{body.Args[0]}
			}
			var lo, hi *int64
			isK := func(x *Term) bool { return len(x.Args) == 0 && x.Op == k.Op }
			for _, c := range conj {
				if len(c.Args) != 2 {
					continue
				}
				a, b := c.Args[0], c.Args[1]
				switch c.Op {
				case "<=", "bvsle", "bvule":
					if v, ok := litIdx(a); ok && isK(b) {
						x := v
						lo = &x
					} else if v, ok := litIdx(b); ok && isK(a) {
						x := v + 1
						hi = &x
					}
				case "<", "bvslt", "bvult":
					if v, ok := litIdx(b); ok && isK(a) {
						x := v
						hi = &x
					} else if v, ok := litIdx(a); ok && isK(b) {
						x := v + 1
						lo = &x
					}
				case ">=", "bvsge", "bvuge":
					if v, ok := litIdx(b); ok && isK(a) {
						x := v
						lo = &x
					}
				case ">", "bvsgt", "bvugt":
					if v, ok := litIdx(a); ok && isK(b) {
						x := v
						hi = &x
					}
				}
			}
			if lo == nil || hi == nil || *hi-*lo > 64 || *hi <= *lo {
				return
			}
			for v := *lo; v < *hi; v++ {
				var lit *Term
				if k.S.K == KBV {
					lit = BVLit(big.NewInt(v), k.S.W)
				} else {
					lit = IntLit64(v)
				}
				inst := body.subst(map[string]*Term{k.Op: lit})
				vc.facts = append(vc.facts, Implies(guard, wrap(inst)))
			}
		}
	}
	rec(f, func(x *Term) *Term { return x }, 0)
}

func (vc *VC) oblige(kind string, st *State, cond *Term, pos token.Pos, desc string) *Obl {
	if cond.IsTrue() {
		return nil
	}
	vc.flushUnfold()
	vc.oblCount[kind]++
	o := &Obl{Kind: kind, Guard: st.guard, Cond: cond, NFacts: len(vc.facts), Pos: pos, Desc: desc}
	o.Name = fmt.Sprintf("%s#%s.%d", vc.funcName(), kind, vc.oblCount[kind])
	vc.obls = append(vc.obls, o)
	// after checking, a safety condition may be assumed for the rest of the path (the failure is reported once,
	// at its first point); end-of-path obligations (post, frame, invariant preservation) are not assumed
	if strings.HasPrefix(kind, "safety") || kind == "pre" || kind == "inv-init" || kind == "assert" {
		vc.assume(st.guard, cond)
	}
	return o
}

func (vc *VC) funcName() string {
	if vc.fn != nil {
		return shortFuncName(vc.fn)
	}
	if vc.con != nil {
		return "lemma:" + strings.TrimPrefix(vc.con.Name, modulePath+"/")
	}
	return "?"
}

func shortFuncName(fn *ssa.Function) string {
	s := fn.String()
	s = strings.ReplaceAll(s, modulePath+"/", "")
	s = strings.ReplaceAll(s, modulePath+".", "gozxing.")
	s = strings.ReplaceAll(s, modulePath, "gozxing")
	return s
}

func (vc *VC) note(reason string) {
	for _, r := range vc.unmodeled {
		if r == reason {
			return
		}
	}
	vc.unmodeled = append(vc.unmodeled, reason)
}

// ---------------------------------------------------------------- heap components

func structKey(t types.Type) string {
	if p, ok := t.Underlying().(*types.Pointer); ok {
		t = p.Elem()
	}
	return typeKey(t)
}

func (vc *VC) fieldKey(structT types.Type, i int) (string, *Sort) {
	st := structT.Underlying().(*types.Struct)
	key := fieldKeyName(structT, i)
	s := SArr(SInt, vc.sortOf(st.Field(i).Type()))
	vc.heapSorts[key] = s
	return key, s
}

func (vc *VC) elemKey(elemT types.Type) (string, *Sort) {
	key := elemKeyName(elemT)
	s := SArr(SInt, SArr(vc.idxSort(), vc.sortOf(elemT)))
	vc.heapSorts[key] = s
	return key, s
}

func (vc *VC) cellKey(t types.Type) (string, *Sort) {
	key := cellKeyName(t)
	s := SArr(SInt, vc.sortOf(t))
	vc.heapSorts[key] = s
	return key, s
}

func (vc *VC) globalKey(g *ssa.Global) (string, *Sort) {
	key := globalKeyName(g)
	t := g.Type().(*types.Pointer).Elem()
	s := vc.sortOf(t)
	vc.heapSorts[key] = s
	return key, s
}

// heapGet returns the current term of a heap component; untouched components are named after the state's base.
func (vc *VC) heapGet(st *State, key string) *Term {
	if vc.heapTrace != nil {
		vc.heapTrace[key] = true
	}
	if t, ok := st.heap[key]; ok {
		return t
	}
	s := vc.heapSorts[key]
	if s == nil {
		panic("unknown heap key " + key)
	}
	return vc.declare("H"+st.base+"!"+key, s)
}

func (vc *VC) wm(st *State) *Term {
	if t, ok := st.heap["wm"]; ok {
		return t
	}
	vc.heapSorts["wm"] = SInt
	return vc.heapGet(st, "wm")
}

func (vc *VC) allocRef(st *State, hint string) *Term {
	w := vc.wm(st)
	r := vc.fresh("ref!"+hint, SInt)
	vc.facts = append(vc.facts, Eq(r, App("+", SInt, w, IntLit64(1))))
	st.heap["wm"] = r
	return r
}

// ---------------------------------------------------------------- sorted helpers

func sortedAllocs(m map[*ssa.Alloc]*Term) []*ssa.Alloc {
	as := make([]*ssa.Alloc, 0, len(m))
	for a := range m {
		as = append(as, a)
	}
	sort.Slice(as, func(i, j int) bool {
		if as[i].Pos() != as[j].Pos() {
			return as[i].Pos() < as[j].Pos()
		}
		return as[i].Name() < as[j].Name()
	})
	return as
}
