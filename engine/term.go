package main

import (
	"fmt"
	"math/big"
	"sort"
	"strings"
	"sync"
)

// ---------------------------------------------------------------- sorts

type SortKind int

const (
	KBool SortKind = iota
	KInt
	KReal
	KBV
	KSlice // datatype Slice (arr Int, off I, len I, cap I)
	KIface // datatype Iface (tag Int, val Int)
	KArr   // (Array idx elem)
	KData  // named datatype (struct value)
)

type Sort struct {
	K     SortKind
	W     int    // BV width
	Idx   *Sort  // KArr
	Elem  *Sort  // KArr
	Name  string // KData
	Field []DField
}

type DField struct {
	Name string
	S    *Sort
}

var (
	SBool    = &Sort{K: KBool}
	SInt     = &Sort{K: KInt}
	SReal    = &Sort{K: KReal}
	SSlice   = &Sort{K: KSlice}
	SIface   = &Sort{K: KIface}
	bvSorts  = map[int]*Sort{}
	arrSorts = map[string]*Sort{}
)

var sortMu sync.Mutex

func SBV(w int) *Sort {
	sortMu.Lock()
	defer sortMu.Unlock()
	if s, ok := bvSorts[w]; ok {
		return s
	}
	s := &Sort{K: KBV, W: w}
	bvSorts[w] = s
	return s
}

func SArr(idx, elem *Sort) *Sort {
	k := idx.String() + "->" + elem.String()
	sortMu.Lock()
	defer sortMu.Unlock()
	if s, ok := arrSorts[k]; ok {
		return s
	}
	s := &Sort{K: KArr, Idx: idx, Elem: elem}
	arrSorts[k] = s
	return s
}

func (s *Sort) String() string {
	switch s.K {
	case KBool:
		return "Bool"
	case KInt:
		return "Int"
	case KReal:
		return "Real"
	case KBV:
		return fmt.Sprintf("(_ BitVec %d)", s.W)
	case KSlice:
		return "Slice"
	case KIface:
		return "Iface"
	case KArr:
		return "(Array " + s.Idx.String() + " " + s.Elem.String() + ")"
	case KData:
		return s.Name
	}
	return "?"
}

// short key usable in identifiers
func (s *Sort) Key() string {
	switch s.K {
	case KBool:
		return "B"
	case KInt:
		return "I"
	case KReal:
		return "R"
	case KBV:
		return fmt.Sprintf("bv%d", s.W)
	case KSlice:
		return "Sl"
	case KIface:
		return "If"
	case KArr:
		return "A" + s.Idx.Key() + "_" + s.Elem.Key()
	case KData:
		return s.Name
	}
	return "?"
}

func sameSort(a, b *Sort) bool { return a == b || a.String() == b.String() }

// ---------------------------------------------------------------- terms

type Term struct {
	Op   string // atom text if len(Args)==0
	Args []*Term
	S    *Sort
	// quantifier support
	Bound []*Term // for forall/exists: bound variable atoms
	Pats  [][]*Term
}

func Atom(name string, s *Sort) *Term { return &Term{Op: name, S: s} }
func App(op string, s *Sort, args ...*Term) *Term {
	return &Term{Op: op, Args: args, S: s}
}

var TTrue = Atom("true", SBool)
var TFalse = Atom("false", SBool)

func (t *Term) IsTrue() bool  { return len(t.Args) == 0 && t.Op == "true" }
func (t *Term) IsFalse() bool { return len(t.Args) == 0 && t.Op == "false" }

func (t *Term) String() string {
	var sb strings.Builder
	t.write(&sb)
	return sb.String()
}

func (t *Term) write(sb *strings.Builder) {
	if t.Op == "forall" || t.Op == "exists" {
		sb.WriteString("(" + t.Op + " (")
		for _, b := range t.Bound {
			sb.WriteString("(" + b.Op + " " + b.S.String() + ")")
		}
		sb.WriteString(") ")
		if len(t.Pats) > 0 {
			sb.WriteString("(! ")
			t.Args[0].write(sb)
			for _, p := range t.Pats {
				sb.WriteString(" :pattern (")
				for i, pt := range p {
					if i > 0 {
						sb.WriteByte(' ')
					}
					pt.write(sb)
				}
				sb.WriteString(")")
			}
			sb.WriteString(")")
		} else {
			t.Args[0].write(sb)
		}
		sb.WriteString(")")
		return
	}
	if len(t.Args) == 0 {
		sb.WriteString(t.Op)
		return
	}
	sb.WriteByte('(')
	sb.WriteString(t.Op)
	for _, a := range t.Args {
		sb.WriteByte(' ')
		a.write(sb)
	}
	sb.WriteByte(')')
}

// ---- boolean constructors with light simplification

func And(ts ...*Term) *Term {
	var out []*Term
	for _, t := range ts {
		if t == nil || t.IsTrue() {
			continue
		}
		if t.IsFalse() {
			return TFalse
		}
		if t.Op == "and" && len(t.Args) > 0 {
			out = append(out, t.Args...)
			continue
		}
		out = append(out, t)
	}
	if len(out) == 0 {
		return TTrue
	}
	if len(out) == 1 {
		return out[0]
	}
	return App("and", SBool, out...)
}

func Or(ts ...*Term) *Term {
	var out []*Term
	for _, t := range ts {
		if t == nil || t.IsFalse() {
			continue
		}
		if t.IsTrue() {
			return TTrue
		}
		out = append(out, t)
	}
	if len(out) == 0 {
		return TFalse
	}
	if len(out) == 1 {
		return out[0]
	}
	return App("or", SBool, out...)
}

func Not(t *Term) *Term {
	if t.IsTrue() {
		return TFalse
	}
	if t.IsFalse() {
		return TTrue
	}
	if t.Op == "not" && len(t.Args) == 1 {
		return t.Args[0]
	}
	return App("not", SBool, t)
}

func Implies(a, b *Term) *Term {
	if a.IsTrue() {
		return b
	}
	if a.IsFalse() || b.IsTrue() {
		return TTrue
	}
	return App("=>", SBool, a, b)
}

func Eq(a, b *Term) *Term {
	if a == b {
		return TTrue
	}
	if a.S.K == KInt && b.S.K == KInt {
		if av, ok := groundInt(a); ok {
			if bv, ok := groundInt(b); ok {
				if av.Cmp(bv) == 0 {
					return TTrue
				}
				return TFalse
			}
		}
	}
	if len(a.Args) == 0 && len(b.Args) == 0 && a.Op == b.Op {
		return TTrue
	}
	return App("=", SBool, a, b)
}

func Ite(c, a, b *Term) *Term {
	if c.IsTrue() {
		return a
	}
	if c.IsFalse() {
		return b
	}
	if v, ok := groundBool(c); ok {
		if v {
			return a
		}
		return b
	}
	if a == b {
		return a
	}
	return App("ite", a.S, c, a, b)
}

func Select(arr, idx *Term) *Term { return App("select", arr.S.Elem, arr, idx) }
func Store(arr, idx, v *Term) *Term {
	return App("store", arr.S, arr, idx, v)
}

func Forall(bound []*Term, body *Term, pats ...[]*Term) *Term {
	if len(bound) == 0 {
		return body
	}
	return &Term{Op: "forall", Args: []*Term{body}, S: SBool, Bound: bound, Pats: pats}
}
func Exists(bound []*Term, body *Term) *Term {
	if len(bound) == 0 {
		return body
	}
	return &Term{Op: "exists", Args: []*Term{body}, S: SBool, Bound: bound}
}

// ---- numerals

func IntLit(v *big.Int) *Term {
	if v.Sign() < 0 {
		return App("-", SInt, Atom(new(big.Int).Neg(v).String(), SInt))
	}
	return Atom(v.String(), SInt)
}
func IntLit64(v int64) *Term { return IntLit(big.NewInt(v)) }

func RealLitRat(r *big.Rat) *Term {
	neg := r.Sign() < 0
	a := new(big.Rat).Abs(r)
	var t *Term
	if a.IsInt() {
		t = Atom(a.Num().String()+".0", SReal)
	} else {
		t = App("/", SReal, Atom(a.Num().String()+".0", SReal), Atom(a.Denom().String()+".0", SReal))
	}
	if neg {
		return App("-", SReal, t)
	}
	return t
}

func BVLit(v *big.Int, w int) *Term {
	m := new(big.Int).Lsh(big.NewInt(1), uint(w))
	x := new(big.Int).Mod(v, m)
	return Atom(fmt.Sprintf("(_ bv%s %d)", x.String(), w), SBV(w))
}

// isNumLit reports whether t is an Int literal and returns its value.
func intLitVal(t *Term) (*big.Int, bool) {
	if t.S.K != KInt {
		return nil, false
	}
	if len(t.Args) == 0 {
		v, ok := new(big.Int).SetString(t.Op, 10)
		return v, ok
	}
	if t.Op == "-" && len(t.Args) == 1 {
		if v, ok := intLitVal(t.Args[0]); ok {
			return new(big.Int).Neg(v), true
		}
	}
	return nil, false
}

// ---- traversal helpers

func (t *Term) walk(f func(*Term)) {
	f(t)
	for _, a := range t.Args {
		a.walk(f)
	}
	for _, p := range t.Pats {
		for _, q := range p {
			q.walk(f)
		}
	}
}

// subst replaces atoms by name.
func (t *Term) subst(m map[string]*Term) *Term {
	if len(m) == 0 {
		return t
	}
	if len(t.Args) == 0 && t.Op != "forall" && t.Op != "exists" {
		if r, ok := m[t.Op]; ok {
			return r
		}
		return t
	}
	changed := false
	args := make([]*Term, len(t.Args))
	for i, a := range t.Args {
		args[i] = a.subst(m)
		if args[i] != a {
			changed = true
		}
	}
	var pats [][]*Term
	for _, p := range t.Pats {
		var np []*Term
		for _, q := range p {
			nq := q.subst(m)
			if nq != q {
				changed = true
			}
			np = append(np, nq)
		}
		pats = append(pats, np)
	}
	if !changed {
		return t
	}
	return &Term{Op: t.Op, Args: args, S: t.S, Bound: t.Bound, Pats: pats}
}

func sortedKeys[V any](m map[string]V) []string {
	ks := make([]string, 0, len(m))
	for k := range m {
		ks = append(ks, k)
	}
	sort.Strings(ks)
	return ks
}

func smtName(s string) string {
	ok := true
	for _, c := range s {
		if !(c >= 'a' && c <= 'z' || c >= 'A' && c <= 'Z' || c >= '0' && c <= '9' || c == '_' || c == '.' || c == '$' || c == '!') {
			ok = false
			break
		}
	}
	if ok && len(s) > 0 && !(s[0] >= '0' && s[0] <= '9') {
		return s
	}
	s = strings.ReplaceAll(s, "|", "!")
	s = strings.ReplaceAll(s, "\\", "!")
	return "|" + s + "|"
}

// ---------------------------------------------------------------- ground evaluation (Int / Bool), used for constant folding

func groundInt(t *Term) (*big.Int, bool) {
	if t.S.K != KInt {
		return nil, false
	}
	if v, ok := intLitVal(t); ok {
		return v, true
	}
	if len(t.Args) == 0 {
		return nil, false
	}
	switch t.Op {
	case "+", "-", "*", "div", "mod":
		vals := make([]*big.Int, len(t.Args))
		for i, a := range t.Args {
			v, ok := groundInt(a)
			if !ok {
				return nil, false
			}
			vals[i] = v
		}
		r := new(big.Int).Set(vals[0])
		switch t.Op {
		case "+":
			for _, v := range vals[1:] {
				r.Add(r, v)
			}
		case "-":
			if len(vals) == 1 {
				return r.Neg(r), true
			}
			for _, v := range vals[1:] {
				r.Sub(r, v)
			}
		case "*":
			for _, v := range vals[1:] {
				r.Mul(r, v)
			}
		case "div", "mod":
			if len(vals) != 2 || vals[1].Sign() == 0 {
				return nil, false
			}
			// SMT-LIB: Euclidean division
			q, m := new(big.Int).DivMod(vals[0], vals[1], new(big.Int))
			if t.Op == "div" {
				return q, true
			}
			return m, true
		}
		return r, true
	case "ite":
		c, ok := groundBool(t.Args[0])
		if !ok {
			return nil, false
		}
		if c {
			return groundInt(t.Args[1])
		}
		return groundInt(t.Args[2])
	case "band", "bor", "bxor", "bandnot", "bshr":
		// int-mode bit operations on non-negative literals (their intended interpretation)
		if len(t.Args) != 2 {
			return nil, false
		}
		a, ok1 := groundInt(t.Args[0])
		b, ok2 := groundInt(t.Args[1])
		if !ok1 || !ok2 || a.Sign() < 0 || b.Sign() < 0 {
			return nil, false
		}
		switch t.Op {
		case "band":
			return new(big.Int).And(a, b), true
		case "bor":
			return new(big.Int).Or(a, b), true
		case "bxor":
			return new(big.Int).Xor(a, b), true
		case "bandnot":
			return new(big.Int).AndNot(a, b), true
		case "bshr":
			if !b.IsInt64() || b.Int64() > 4096 {
				return nil, false
			}
			return new(big.Int).Rsh(a, uint(b.Int64())), true
		}
	case "bshl":
		// bshl(w, x, s): (x << s) truncated to w bits
		if len(t.Args) != 3 {
			return nil, false
		}
		w, ok0 := groundInt(t.Args[0])
		a, ok1 := groundInt(t.Args[1])
		b, ok2 := groundInt(t.Args[2])
		if !ok0 || !ok1 || !ok2 || a.Sign() < 0 || b.Sign() < 0 || w.Sign() <= 0 || !b.IsInt64() || b.Int64() > 4096 || !w.IsInt64() || w.Int64() > 4096 {
			return nil, false
		}
		r := new(big.Int).Lsh(a, uint(b.Int64()))
		return r.And(r, new(big.Int).Sub(new(big.Int).Lsh(big.NewInt(1), uint(w.Int64())), big.NewInt(1))), true
	}
	return nil, false
}

func groundBool(t *Term) (bool, bool) {
	if t.IsTrue() {
		return true, true
	}
	if t.IsFalse() {
		return false, true
	}
	switch t.Op {
	case "not":
		if len(t.Args) == 1 {
			v, ok := groundBool(t.Args[0])
			return !v, ok
		}
	case "and", "or":
		res := t.Op == "and"
		for _, a := range t.Args {
			v, ok := groundBool(a)
			if !ok {
				return false, false
			}
			if t.Op == "and" && !v {
				return false, true
			}
			if t.Op == "or" && v {
				return true, true
			}
		}
		return res, true
	case "=", "<", "<=", ">", ">=":
		if len(t.Args) != 2 || t.Args[0].S.K != KInt {
			return false, false
		}
		a, ok1 := groundInt(t.Args[0])
		b, ok2 := groundInt(t.Args[1])
		if !ok1 || !ok2 {
			return false, false
		}
		c := a.Cmp(b)
		switch t.Op {
		case "=":
			return c == 0, true
		case "<":
			return c < 0, true
		case "<=":
			return c <= 0, true
		case ">":
			return c > 0, true
		default:
			return c >= 0, true
		}
	}
	return false, false
}

// foldInt returns a literal for a ground Int term, else the term itself.
func foldInt(t *Term) *Term {
	if t.S.K == KInt && len(t.Args) > 0 {
		if v, ok := groundInt(t); ok {
			return IntLit(v)
		}
	}
	return t
}
