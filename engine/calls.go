package main

import (
	"fmt"
	"go/token"
	"go/types"
	"math/big"
	"sort"
	"strings"

	"golang.org/x/tools/go/ssa"
)

func (fr *frame) execCall(st *State, in *ssa.Call) {
	vc := fr.vc
	c := in.Common()
	res := fr.doCall(st, c, in.Pos(), in)
	if res == nil {
		res = &Val{T: vc.fresh("callres", vc.sortOf(in.Type())), Go: in.Type()}
	}
	fr.vals[in] = res
}

func (fr *frame) argVals(st *State, c *ssa.CallCommon) []*Val {
	var out []*Val
	for _, a := range c.Args {
		v := fr.val(st, a)
		if v.Addr != nil && v.T == nil {
			out = append(out, &Val{Addr: v.Addr, Go: a.Type()})
			continue
		}
		t := fr.term(st, a)
		out = append(out, &Val{T: t, Addr: v.Addr, Fn: v.Fn, Go: a.Type()})
	}
	return out
}

func (fr *frame) doCall(st *State, c *ssa.CallCommon, pos token.Pos, in ssa.Value) *Val {
	vc := fr.vc
	if b, ok := c.Value.(*ssa.Builtin); ok {
		return fr.callBuiltin(st, b, c, pos, in)
	}
	if c.IsInvoke() {
		return fr.callInvoke(st, c, pos, in)
	}
	callee := c.StaticCallee()
	if callee == nil {
		// dynamic call through a function value
		return fr.callDynamic(st, c, pos, in)
	}
	args := fr.argVals(st, c)
	fr.callSiteAsserts(st, callee, pos, args)
	if _, isClosure := c.Value.(*ssa.MakeClosure); isClosure || len(callee.FreeVars) > 0 {
		vc.note("call of a closure in " + shortFuncName(fr.fn))
		vc.havocAll(st)
		return fr.arbitraryResult(st, callee.Signature)
	}
	return fr.callStatic(st, callee, args, pos)
}

// callOrdinal: position of the call at pos among the calls of functions named name in the function under verification,
// counted in source order.
func (fr *frame) callOrdinal(name string, pos token.Pos) int {
	vc := fr.vc
	if vc.callSites == nil {
		vc.callSites = map[string][]token.Pos{}
		for _, b := range fr.fn.Blocks {
			for _, in := range b.Instrs {
				ci, ok := in.(ssa.CallInstruction)
				if !ok {
					continue
				}
				if cal := ci.Common().StaticCallee(); cal != nil {
					vc.callSites[cal.Name()] = append(vc.callSites[cal.Name()], in.Pos())
				}
			}
		}
		for k := range vc.callSites {
			ps := vc.callSites[k]
			sort.Slice(ps, func(i, j int) bool { return ps[i] < ps[j] })
		}
	}
	for i, p := range vc.callSites[name] {
		if p == pos {
			return i
		}
	}
	// unknown position (synthetic call): fall back to execution order
	if vc.callCount == nil {
		vc.callCount = map[string]int{}
	}
	n := vc.callCount[name]
	vc.callCount[name] = n + 1
	return 1000 + n
}

// callStatic: a call whose target function is known (contract, external stub, inlining or effect summary, in that order).
func (fr *frame) callStatic(st *State, callee *ssa.Function, args []*Val, pos token.Pos) *Val {
	vc := fr.vc
	if con := vc.eng.Contracts[callee]; con != nil && !(fr.top && callee == vc.fn && false) {
		vc.calleesContract[shortFuncName(callee)] = true
		return fr.applyContract(st, con, args, pos, callee.Signature)
	}
	if callee.Blocks == nil || !vc.eng.inModule(pkgOf(callee)) {
		return fr.callExternal(st, callee, args, pos)
	}
	if fr.canInline(callee) {
		return fr.inline(st, callee, args, pos)
	}
	vc.calleesNoContract[shortFuncName(callee)] = true
	fr.nilRecvCheck(st, callee, args, pos)
	vc.havocEffects(st, vc.eng.Effects[callee])
	return fr.arbitraryResult(st, callee.Signature)
}

func pkgOf(fn *ssa.Function) *types.Package {
	if fn.Pkg != nil {
		return fn.Pkg.Pkg
	}
	if fn.Object() != nil {
		return fn.Object().Pkg()
	}
	return nil
}

func (fr *frame) nilRecvCheck(st *State, callee *ssa.Function, args []*Val, pos token.Pos) {
	if callee.Signature.Recv() == nil || len(args) == 0 {
		return
	}
	if _, ok := callee.Signature.Recv().Type().Underlying().(*types.Pointer); ok && args[0].T != nil && args[0].Addr == nil {
		fr.vc.oblige("safety.nil", st, Not(Eq(args[0].T, IntLit64(0))), pos, "method call on nil receiver: "+shortFuncName(callee))
	}
}

func (fr *frame) arbitraryResult(st *State, sig *types.Signature) *Val {
	vc := fr.vc
	mk := func(t types.Type) *Val {
		v := vc.fresh("res", vc.sortOf(t))
		vc.assume(st.guard, vc.typeInv(v, t, st))
		return &Val{T: v, Go: t}
	}
	switch sig.Results().Len() {
	case 0:
		return &Val{T: IntLit64(0)}
	case 1:
		return mk(sig.Results().At(0).Type())
	}
	var tv []*Val
	for i := 0; i < sig.Results().Len(); i++ {
		tv = append(tv, mk(sig.Results().At(i).Type()))
	}
	return &Val{Tuple: tv}
}

// ---------------------------------------------------------------- havoc

func (vc *VC) havocKey(st *State, key string) {
	s := vc.heapSorts[key]
	if s == nil {
		return
	}
	st.heap[key] = vc.fresh("hv!"+key, s)
}

func (vc *VC) havocAll(st *State) {
	w := vc.wm(st)
	vc.nfresh++
	st.base = fmt.Sprintf("x%d", vc.nfresh)
	st.heap = map[string]*Term{}
	nw := vc.fresh("wm", SInt)
	vc.assume(st.guard, App(">=", SBool, nw, w))
	st.heap["wm"] = nw
	vc.assumed["call with unknown effects: whole heap havocked"] = true
}

func (vc *VC) bumpWM(st *State) {
	w := vc.wm(st)
	nw := vc.fresh("wm", SInt)
	vc.facts = append(vc.facts, App(">=", SBool, nw, w))
	st.heap["wm"] = nw
}

func (vc *VC) havocEffects(st *State, eff *Effect) {
	if eff == nil || eff.Unknown {
		vc.havocAll(st)
		return
	}
	for _, k := range sortedKeys(eff.Writes) {
		if strings.HasPrefix(k, "E!") || strings.HasPrefix(k, "F!") || strings.HasPrefix(k, "P!") || strings.HasPrefix(k, "G!") {
			vc.ensureHeapSort(k)
			vc.havocKey(st, k)
		}
	}
	if eff.Allocs {
		vc.bumpWM(st)
	}
}

// ensureHeapSort makes sure the sort of a heap key computed by the effect analysis is registered.
func (vc *VC) ensureHeapSort(key string) {
	if vc.heapSorts[key] != nil {
		return
	}
	if ti, ok := vc.eng.keyTypes[key]; ok {
		switch ti.kind {
		case "F":
			vc.fieldKey(ti.t, ti.field)
		case "E":
			vc.elemKey(ti.t)
		case "P":
			vc.cellKey(ti.t)
		case "G":
			vc.globalKey(ti.g)
		}
	}
}

// ---------------------------------------------------------------- builtins

func (fr *frame) callBuiltin(st *State, b *ssa.Builtin, c *ssa.CallCommon, pos token.Pos, in ssa.Value) *Val {
	vc := fr.vc
	ti := types.Typ[types.Int]
	switch b.Name() {
	case "len", "cap":
		x := fr.term(st, c.Args[0])
		var r *Term
		switch xt := c.Args[0].Type().Underlying().(type) {
		case *types.Slice:
			if b.Name() == "len" {
				r = vc.slLen(x)
			} else {
				r = vc.slCap(x)
			}
		case *types.Basic:
			r = vc.strLen(x)
		case *types.Array:
			r = vc.idx(xt.Len())
		case *types.Pointer:
			r = vc.idx(xt.Elem().Underlying().(*types.Array).Len())
		case *types.Map, *types.Chan:
			r = vc.fresh("maplen", vc.idxSort())
			vc.assume(st.guard, And(vc.iCmp(">=", r, vc.idx(0), true), vc.iCmp("<=", r, vc.maxLen(), true), Implies(Eq(x, IntLit64(0)), Eq(r, vc.idx(0)))))
		}
		if r == nil {
			r = vc.fresh("len", vc.idxSort())
		}
		return &Val{T: vc.define(fr.regName(in), r), Go: ti}
	case "append":
		return fr.builtinAppend(st, c, pos, in)
	case "copy":
		return fr.builtinCopy(st, c, pos, in)
	case "delete":
		return &Val{T: IntLit64(0)}
	case "print", "println":
		return &Val{T: IntLit64(0)}
	case "min", "max":
		x := fr.term(st, c.Args[0])
		for _, a := range c.Args[1:] {
			y := fr.term(st, a)
			var cnd *Term
			if isFloat(a.Type()) {
				cnd = App("<=", SBool, x, y)
			} else {
				_, signed, _ := intInfo(a.Type())
				cnd = vc.iCmp("<=", x, y, signed)
			}
			if b.Name() == "min" {
				x = Ite(cnd, x, y)
			} else {
				x = Ite(cnd, y, x)
			}
		}
		return &Val{T: vc.define(fr.regName(in), x), Go: in.Type()}
	case "ssa:wrapnilchk":
		return &Val{T: fr.term(st, c.Args[0]), Go: in.Type()}
	case "ssa:deferstack":
		return &Val{T: IntLit64(0)}
	}
	vc.note("unsupported builtin " + b.Name())
	return nil
}

func (fr *frame) builtinAppend(st *State, c *ssa.CallCommon, pos token.Pos, in ssa.Value) *Val {
	vc := fr.vc
	s := fr.term(st, c.Args[0])
	sl := c.Args[0].Type().Underlying().(*types.Slice)
	key, hs := vc.elemKey(sl.Elem())
	H := vc.heapGet(st, key)
	var n *Term
	var srcAt func(k *Term) *Term
	tArg := c.Args[1]
	if isString(tArg.Type()) {
		t := fr.term(st, tArg)
		n = vc.strLen(t)
		srcAt = func(k *Term) *Term { return vc.strAt(t, k) }
	} else {
		t := fr.term(st, tArg)
		n = vc.slLen(t)
		tarr := vc.define("tarr", Select(H, vc.slArr(t)))
		toff := vc.slOff(t)
		srcAt = func(k *Term) *Term { return Select(tarr, vc.iAdd(toff, k)) }
	}
	n = vc.define("app!n", n)
	oldLen := vc.slLen(s)
	newLen := vc.define("app!len", vc.iAdd(oldLen, n))
	fits := vc.define("app!fits", vc.iCmp("<=", newLen, vc.slCap(s), true))
	// fresh backing array for the growing case
	ref := vc.allocRef(st, "append")
	newCap := vc.fresh("app!cap", vc.idxSort())
	vc.assume(st.guard, And(vc.iCmp(">=", newCap, newLen, true), vc.iCmp("<=", newCap, vc.maxLen(), true)))
	vc.assume(st.guard, vc.iCmp("<=", newLen, vc.maxLen(), true))
	oldArr := vc.define("app!old", Select(H, vc.slArr(s)))
	// in place contents
	inPlace := vc.fresh("app!ip", hs.Elem)
	grown := vc.fresh("app!gr", hs.Elem)
	base := vc.define("app!base", vc.iAdd(vc.slOff(s), oldLen))
	if lv, ok := litIdx(n); ok && lv <= 8 {
		ip := oldArr
		for j := int64(0); j < lv; j++ {
			ip = Store(ip, vc.iAdd(base, vc.idx(j)), srcAt(vc.idx(j)))
		}
		vc.assume(st.guard, Eq(inPlace, ip))
	} else {
		k := Atom("k!ap", vc.idxSort())
		in_ := And(vc.iCmp(">=", k, base, true), vc.iCmp("<", k, vc.iAdd(base, n), true))
		vc.assume(st.guard, Forall([]*Term{k}, Eq(Select(inPlace, k), Ite(in_, srcAt(vc.iSub(k, base)), Select(oldArr, k))), []*Term{Select(inPlace, k)}))
	}
	{
		k := Atom("k!ag", vc.idxSort())
		inOld := And(vc.iCmp(">=", k, vc.idx(0), true), vc.iCmp("<", k, oldLen, true))
		inNew := And(vc.iCmp(">=", k, oldLen, true), vc.iCmp("<", k, newLen, true))
		vc.assume(st.guard, Forall([]*Term{k}, And(
			Implies(inOld, Eq(Select(grown, k), Select(oldArr, vc.iAdd(vc.slOff(s), k)))),
			Implies(inNew, Eq(Select(grown, k), srcAt(vc.iSub(k, oldLen))))), []*Term{Select(grown, k)}))
	}
	if lv, ok := litIdx(n); ok && lv <= 8 {
		// the appended elements of the grown copy, as ground facts
		for j := int64(0); j < lv; j++ {
			vc.assume(st.guard, Eq(Select(grown, vc.iAdd(oldLen, vc.idx(j))), srcAt(vc.idx(j))))
		}
	}
	st.heap[key] = vc.define("h", Ite(fits, Store(H, vc.slArr(s), inPlace), Store(H, ref, grown)))
	res := vc.mkSlice(Ite(fits, vc.slArr(s), ref), Ite(fits, vc.slOff(s), vc.idx(0)), newLen, Ite(fits, vc.slCap(s), newCap))
	return &Val{T: vc.define(fr.regName(in), res), Go: in.Type()}
}

func litIdx(t *Term) (int64, bool) {
	if v, ok := intLitVal(t); ok && v.IsInt64() {
		return v.Int64(), true
	}
	if t.S.K == KBV && strings.HasPrefix(t.Op, "(_ bv") && len(t.Args) == 0 {
		var v int64
		var w int
		if _, err := fmt.Sscanf(t.Op, "(_ bv%d %d)", &v, &w); err == nil {
			return v, true
		}
	}
	return 0, false
}

func (fr *frame) builtinCopy(st *State, c *ssa.CallCommon, pos token.Pos, in ssa.Value) *Val {
	vc := fr.vc
	d := fr.term(st, c.Args[0])
	sl := c.Args[0].Type().Underlying().(*types.Slice)
	key, hs := vc.elemKey(sl.Elem())
	H := vc.heapGet(st, key)
	var n *Term
	var srcAt func(k *Term) *Term
	if isString(c.Args[1].Type()) {
		t := fr.term(st, c.Args[1])
		n = vc.strLen(t)
		srcAt = func(k *Term) *Term { return vc.strAt(t, k) }
	} else {
		t := fr.term(st, c.Args[1])
		n = vc.slLen(t)
		tarr := vc.define("cp!src", Select(H, vc.slArr(t)))
		toff := vc.slOff(t)
		srcAt = func(k *Term) *Term { return Select(tarr, vc.iAdd(toff, k)) }
	}
	cnt := vc.define("cp!n", Ite(vc.iCmp("<=", n, vc.slLen(d), true), n, vc.slLen(d)))
	oldArr := vc.define("cp!old", Select(H, vc.slArr(d)))
	na := vc.fresh("cp!new", hs.Elem)
	k := Atom("k!cp", vc.idxSort())
	base := vc.slOff(d)
	inR := And(vc.iCmp(">=", k, base, true), vc.iCmp("<", k, vc.iAdd(base, cnt), true))
	vc.assume(st.guard, Forall([]*Term{k}, Eq(Select(na, k), Ite(inR, srcAt(vc.iSub(k, base)), Select(oldArr, k))), []*Term{Select(na, k)}))
	st.heap[key] = vc.define("h", Store(H, vc.slArr(d), na))
	return &Val{T: cnt, Go: types.Typ[types.Int]}
}

// ---------------------------------------------------------------- contracts at call sites

// contractEnv builds the spec environment binding a contract's header names to actual values.
func (vc *VC) contractEnv(con *Contract, args []*Term, results []*Term, cur, old *State) *SEnv {
	env := vc.newEnv(cur, old, con.PkgPath)
	for i, n := range con.ParamNames {
		if n == "_" || i >= len(args) {
			continue
		}
		v := &SVal{T: args[i], Go: con.ParamTypes[i]}
		env.vars[n] = v
		env.oldVars[n] = v
	}
	for i, n := range con.ResultNames {
		if n == "_" || i >= len(results) {
			continue
		}
		env.vars[n] = &SVal{T: results[i], Go: con.ResultTypes[i]}
	}
	return env
}

func (fr *frame) applyContract(st *State, con *Contract, args []*Val, pos token.Pos, sig *types.Signature) *Val {
	vc := fr.vc
	ats := make([]*Term, len(args))
	addrArgs := map[int]*Addr{}
	for i, a := range args {
		ats[i] = a.T
		if a.T == nil {
			if a.Addr != nil {
				addrArgs[i] = a.Addr
				vc.assumed["contract of "+shortName(con.Name)+" (proved for heap-object receivers) applied to an interior pointer &s[i]/&p.f"] = true
			} else {
				vc.note("argument without a term passed to " + shortName(con.Name))
			}
			ats[i] = vc.fresh("iptr", vc.sortOf(a.Go))
		}
	}
	bindAddrs := func(env *SEnv) {
		for i, ad := range addrArgs {
			if i < len(con.ParamNames) && con.ParamNames[i] != "_" {
				v := &SVal{Addr: ad, Go: con.ParamTypes[i]}
				env.vars[con.ParamNames[i]] = v
				env.oldVars[con.ParamNames[i]] = v
			}
		}
	}
	if con.Mode != vc.mode && con.Opts["anymode"] != "true" {
		// contracts are re-translated in the caller's mode; nothing to do, but record it
		vc.assumed["callee contract of "+con.Name+" (mode "+con.Mode+") re-translated in mode "+vc.mode] = true
	}
	// implicit: pointer receivers are non-nil
	if sig != nil && sig.Recv() != nil && len(ats) > 0 {
		if _, ok := sig.Recv().Type().Underlying().(*types.Pointer); ok {
			if ad, isAddr := addrArgs[0]; isAddr {
				if ad.Nil != nil {
					vc.oblige("safety.nil", st, Not(ad.Nil), pos, "method call on nil receiver: "+con.Name)
				}
			} else {
				vc.oblige("safety.nil", st, Not(Eq(ats[0], IntLit64(0))), pos, "method call on nil receiver: "+con.Name)
			}
		}
	}
	pre := st.clone()
	env := vc.contractEnv(con, ats, nil, pre, pre)
	bindAddrs(env)
	env.proving = true
	for _, rq := range con.Requires {
		t, err := env.trBool(rq.E)
		if err != nil {
			vc.specError(con, rq, err)
			continue
		}
		vc.flushUnfold()
		if o := vc.oblige("pre", st, t, pos, fmt.Sprintf("precondition of %s: %s", shortName(con.Name), rq.Src)); o != nil {
			o.Name = fmt.Sprintf("%s#pre@%s.%d", vc.funcName(), shortName(con.Name), vc.oblCount["pre"])
		}
	}
	// havoc what the callee may modify
	if con.ModGiven {
		fr.havocModifies(st, con, env)
		vc.bumpWM(st)
	} else if con.Fn != nil {
		vc.havocEffects(st, vc.eng.Effects[con.Fn])
	} else {
		vc.havocAll(st)
	}
	// results
	var rts []*Term
	var rvs []*Val
	for _, rt := range con.ResultTypes {
		v := vc.fresh("res", vc.sortOf(rt))
		vc.assume(st.guard, vc.typeInv(v, rt, st))
		rts = append(rts, v)
		rvs = append(rvs, &Val{T: v, Go: rt})
	}
	post := vc.contractEnv(con, ats, rts, st, pre)
	bindAddrs(post)
	for _, en := range con.Ensures {
		t, err := post.trBool(en.E)
		if err != nil {
			vc.specError(con, en, err)
			continue
		}
		vc.flushUnfold()
		vc.assume(st.guard, t)
	}
	switch len(rvs) {
	case 0:
		return &Val{T: IntLit64(0)}
	case 1:
		return rvs[0]
	}
	return &Val{Tuple: rvs}
}

func shortName(s string) string {
	s = strings.ReplaceAll(s, modulePath+"/", "")
	s = strings.ReplaceAll(s, modulePath+".", "gozxing.")
	return s
}

func (vc *VC) specError(con *Contract, cl *Clause, err error) {
	msg := fmt.Sprintf("%s:%d: %v", cl.File, cl.Line, err)
	for _, e := range vc.specErrs {
		if e == msg {
			return
		}
	}
	vc.specErrs = append(vc.specErrs, msg)
}

// havocModifies havocs exactly the places named by a modifies clause (evaluated in the pre-state).
func (fr *frame) havocModifies(st *State, con *Contract, env *SEnv) {
	vc := fr.vc
	for _, m := range con.Modifies {
		if err := vc.havocPlace(st, env, m); err != nil {
			vc.specErrs = append(vc.specErrs, fmt.Sprintf("%s:%d: modifies: %v", con.File, con.Line, err))
		}
	}
}

// havocPlace: e is x.f (field of object x) or s[0] (all elements of slice s within its window).
func (vc *VC) havocPlace(st *State, env *SEnv, e *SExpr) (err error) {
	defer func() {
		if r := recover(); r != nil {
			if se, ok := r.(specErr); ok {
				err = fmt.Errorf("%s", string(se))
				return
			}
			panic(r)
		}
	}()
	switch e.K {
	case ESelect:
		x := env.materialize(env.tr(e.X), nil)
		p, ok := x.Go.Underlying().(*types.Pointer)
		if !ok {
			return fmt.Errorf("modifies %s: not a field of a pointer", e)
		}
		stt, ok := p.Elem().Underlying().(*types.Struct)
		if !ok {
			return fmt.Errorf("modifies %s: not a struct", e)
		}
		for i := 0; i < stt.NumFields(); i++ {
			if stt.Field(i).Name() == e.Op {
				key, hs := vc.fieldKey(p.Elem(), i)
				nv := vc.fresh("mod!"+e.Op, hs.Elem)
				vc.assume(st.guard, vc.typeInv(nv, stt.Field(i).Type(), st))
				st.heap[key] = vc.define("h", Store(vc.heapGet(st, key), x.T, nv))
				return nil
			}
		}
		return fmt.Errorf("modifies %s: no such field", e)
	case EIndex:
		s := env.materialize(env.tr(e.X), nil)
		sl, ok := s.Go.Underlying().(*types.Slice)
		if !ok {
			return fmt.Errorf("modifies %s: not a slice", e)
		}
		key, hs := vc.elemKey(sl.Elem())
		H := vc.heapGet(st, key)
		oldArr := vc.define("mod!old", Select(H, vc.slArr(s.T)))
		na := vc.fresh("mod!arr", hs.Elem)
		k := Atom("k!m", vc.idxSort())
		lo := vc.slOff(s.T)
		hi := vc.iAdd(lo, vc.modExtent(s.T, e))
		out := Or(vc.iCmp("<", k, lo, true), vc.iCmp(">=", k, hi, true))
		vc.assume(st.guard, Forall([]*Term{k}, Implies(out, Eq(Select(na, k), Select(oldArr, k))), []*Term{Select(na, k)}))
		st.heap[key] = vc.define("h", Store(H, vc.slArr(s.T), na))
		return nil
	}
	return fmt.Errorf("unsupported modifies place %s", e)
}

// ---------------------------------------------------------------- inlining of small contract-less callees

func (fr *frame) canInline(callee *ssa.Function) bool {
	if fr.depth >= 3 {
		return false
	}
	for _, f := range fr.stack {
		if f == callee {
			return false
		}
	}
	n := 0
	for _, b := range callee.Blocks {
		for _, s := range b.Succs {
			if isBackEdge(b, s) {
				return false
			}
		}
		for _, in := range b.Instrs {
			n++
			switch in.(type) {
			case *ssa.Defer, *ssa.Go, *ssa.Select, *ssa.MakeClosure, *ssa.Send:
				return false
			}
		}
	}
	return n <= 120
}

func (fr *frame) inline(st *State, callee *ssa.Function, args []*Val, pos token.Pos) *Val {
	vc := fr.vc
	vc.inlined[shortFuncName(callee)] = true
	fr.nilRecvCheck(st, callee, args, pos)
	sub := vc.newFrame(callee, fr.depth+1, false, fr.stack)
	for i, p := range callee.Params {
		if i < len(args) {
			sub.vals[p] = args[i]
		}
	}
	sub.run(st.clone())
	if len(sub.rets) == 0 {
		// callee never returns normally (always panics)
		st.dead = true
		st.guard = TFalse
		return nil
	}
	var states []*State
	for _, r := range sub.rets {
		states = append(states, r.st)
	}
	merged := vc.merge(states)
	*st = *merged
	nres := callee.Signature.Results().Len()
	mk := func(i int) *Val {
		rt := callee.Signature.Results().At(i).Type()
		anyAddr := false
		for _, r := range sub.rets {
			if r.results[i].Addr != nil && r.results[i].T == nil {
				anyAddr = true
			}
		}
		if anyAddr {
			if v := vc.mergeAddrResults(states, sub.rets, i, rt); v != nil {
				return v
			}
			vc.note("interior pointers of different shapes returned by " + shortFuncName(callee))
			return &Val{T: vc.fresh("iptr", SInt), Go: rt}
		}
		ts := make([]*Term, len(sub.rets))
		for j, r := range sub.rets {
			ts[j] = r.results[i].T
		}
		return &Val{T: vc.mergeTerms("ret", states, ts), Go: rt}
	}
	switch nres {
	case 0:
		return &Val{T: IntLit64(0)}
	case 1:
		return mk(0)
	}
	var tv []*Val
	for i := 0; i < nres; i++ {
		tv = append(tv, mk(i))
	}
	return &Val{Tuple: tv}
}

// ---------------------------------------------------------------- interface and dynamic calls

func (fr *frame) callInvoke(st *State, c *ssa.CallCommon, pos token.Pos, in ssa.Value) *Val {
	vc := fr.vc
	recv := fr.term(st, c.Value)
	vc.oblige("safety.nil", st, Not(Eq(vc.ifTag(recv), IntLit64(0))), pos, "method call on nil interface: "+c.Method.Name())
	args := append([]*Val{{T: recv, Go: c.Value.Type()}}, fr.argVals(st, c)...)
	if con := vc.eng.IfaceCons[c.Method.FullName()]; con != nil {
		vc.calleesContract[shortName(con.Name)] = true
		return fr.applyContract(st, con, args, pos, nil)
	}
	sig := c.Method.Type().(*types.Signature)
	// external interface (error.Error, fmt.Stringer, image.Image...) or module interface without contract
	if !vc.eng.inModule(c.Method.Pkg()) {
		vc.assumed["method "+c.Method.FullName()+" of an external interface: assumed pure and non-panicking"] = true
		return fr.arbitraryResult(st, sig)
	}
	vc.calleesNoContract["(interface) "+shortName(c.Method.FullName())] = true
	eff := vc.eng.invokeEffects(c.Method)
	vc.havocEffects(st, eff)
	return fr.arbitraryResult(st, sig)
}

func (fr *frame) callDynamic(st *State, c *ssa.CallCommon, pos token.Pos, in ssa.Value) *Val {
	vc := fr.vc
	sig := c.Signature()
	// func-typed struct field with a field contract?
	if u, ok := c.Value.(*ssa.UnOp); ok && u.Op == token.MUL {
		if fa, ok := u.X.(*ssa.FieldAddr); ok {
			pt := fa.X.Type().Underlying().(*types.Pointer)
			if nt, ok := pt.Elem().(*types.Named); ok {
				stt := nt.Underlying().(*types.Struct)
				key := nt.Obj().Pkg().Path() + "." + nt.Obj().Name() + "." + stt.Field(fa.Field).Name()
				if con := vc.eng.FieldCons[key]; con != nil {
					fv := fr.term(st, c.Value)
					vc.oblige("safety.nil", st, Not(Eq(fv, IntLit64(0))), pos, "call of nil function value")
					vc.calleesContract[shortName(con.Name)] = true
					return fr.applyContract(st, con, fr.argVals(st, c), pos, nil)
				}
			}
		}
	}
	if v := fr.callThroughField(st, c, pos); v != nil {
		return v
	}
	fv := fr.val(st, c.Value)
	if fv.Fn != nil && fv.Fn.Blocks != nil && len(fv.Fn.FreeVars) == 0 {
		if con := vc.eng.Contracts[fv.Fn]; con != nil {
			return fr.applyContract(st, con, fr.argVals(st, c), pos, fv.Fn.Signature)
		}
	}
	vc.note("dynamic call through a function value in " + shortFuncName(fr.fn))
	vc.havocAll(st)
	return fr.arbitraryResult(st, sig)
}

// callThroughField: a call of a func-typed struct field without a field contract is a guarded choice among the named
// functions that are stored into that field anywhere in the module (closed world: the module is the whole program for
// its own unexported fields; for exported fields this is an assumption, recorded as such).
func (fr *frame) callThroughField(st *State, c *ssa.CallCommon, pos token.Pos) *Val {
	vc := fr.vc
	u, ok := c.Value.(*ssa.UnOp)
	if !ok || u.Op != token.MUL {
		return nil
	}
	fa, ok := u.X.(*ssa.FieldAddr)
	if !ok {
		return nil
	}
	pt, ok := fa.X.Type().Underlying().(*types.Pointer)
	if !ok {
		return nil
	}
	nt, ok := pt.Elem().(*types.Named)
	if !ok || nt.Obj().Pkg() == nil {
		return nil
	}
	stt, ok := nt.Underlying().(*types.Struct)
	if !ok {
		return nil
	}
	key := nt.Obj().Pkg().Path() + "." + nt.Obj().Name() + "." + stt.Field(fa.Field).Name()
	impls, err := vc.eng.fieldImplsByKey(key)
	if err != nil || len(impls) == 0 || len(impls) > 8 {
		return nil
	}
	sig := c.Signature()
	nres := sig.Results().Len()
	fv := fr.term(st, c.Value)
	args := fr.argVals(st, c)
	vc.oblige("safety.nil", st, Not(Eq(fv, IntLit64(0))), pos, "call of nil function value")
	var eqs []*Term
	for _, f := range impls {
		eqs = append(eqs, Eq(fv, vc.eng.funcIDTerm(f)))
	}
	vc.assume(st.guard, Or(eqs...))
	vc.assumed["closed world for func-typed field "+shortName(key)+": it holds one of the functions stored into it somewhere in the module"] = true
	var states []*State
	var results []*Val
	for i, f := range impls {
		s2 := st.clone()
		s2.guard = vc.define("g", And(st.guard, eqs[i]))
		r := fr.callStatic(s2, f, args, pos)
		if s2.dead {
			continue
		}
		if nres == 1 && (r == nil || r.T == nil) || nres > 1 && (r == nil || len(r.Tuple) != nres) {
			return nil
		}
		states = append(states, s2)
		results = append(results, r)
	}
	if len(states) == 0 {
		st.dead = true
		st.guard = TFalse
		return &Val{T: IntLit64(0)}
	}
	merged := vc.merge(states)
	*st = *merged
	switch {
	case nres == 0:
		return &Val{T: IntLit64(0)}
	case nres == 1:
		ts := make([]*Term, len(results))
		for j, r := range results {
			ts[j] = r.T
		}
		return &Val{T: vc.mergeTerms("dyn", states, ts), Go: sig.Results().At(0).Type()}
	}
	var tv []*Val
	for i := 0; i < nres; i++ {
		ts := make([]*Term, len(results))
		for j, r := range results {
			if r.Tuple[i].T == nil {
				return &Val{Tuple: results[0].Tuple}
			}
			ts[j] = r.Tuple[i].T
		}
		tv = append(tv, &Val{T: vc.mergeTerms("dyn", states, ts), Go: sig.Results().At(i).Type()})
	}
	return &Val{Tuple: tv}
}

// ---------------------------------------------------------------- external functions (trusted stubs)

func (fr *frame) callExternal(st *State, callee *ssa.Function, args []*Val, pos token.Pos) *Val {
	vc := fr.vc
	name := callee.String()
	sig := callee.Signature
	tf := types.Typ[types.Float64]
	switch name {
	case "math.Inf":
		vc.assumed["stub math.Inf: returns the +Inf constant for a positive sign argument"] = true
		return &Val{T: Ite(vc.iCmp(">=", args[0].T, vc.intConst(big.NewInt(0), types.Typ[types.Int]), true), vc.posInf(), App("-", SReal, vc.posInf())), Go: tf}
	case "math.Abs":
		x := args[0].T
		return &Val{T: Ite(App(">=", SBool, x, Atom("0.0", SReal)), x, App("-", SReal, x)), Go: tf}
	case "math.Floor":
		vc.assumed["stub math.Floor: floor over reals"] = true
		return &Val{T: App("to_real", SReal, App("to_int", SInt, args[0].T)), Go: tf}
	case "math.Ceil":
		vc.assumed["stub math.Ceil: ceiling over reals"] = true
		x := args[0].T
		return &Val{T: App("-", SReal, App("to_real", SReal, App("to_int", SInt, App("-", SReal, x)))), Go: tf}
	case "math.IsNaN":
		vc.assumed["stub math.IsNaN: reals are never NaN"] = true
		return &Val{T: TFalse, Go: types.Typ[types.Bool]}
	case "math.IsInf":
		return &Val{T: Or(Eq(args[0].T, vc.posInf()), Eq(args[0].T, App("-", SReal, vc.posInf()))), Go: types.Typ[types.Bool]}
	case "math/bits.TrailingZeros32", "math/bits.Reverse32", "math/bits.OnesCount32", "math/bits.OnesCount", "math/bits.Len32", "math/bits.LeadingZeros32":
		if vc.isBV() {
			short := strings.TrimPrefix(name, "math/bits.")
			t := vc.bitsStub(short, args[0].T)
			if strings.HasPrefix(short, "OnesCount") {
				// a count of w one-bit summands lies in 0..w: stated explicitly (follows from the definition)
				rt := sig.Results().At(0).Type()
				t = vc.define("ones", t)
				vc.assume(st.guard, And(vc.iCmp(">=", t, vc.intConst(big.NewInt(0), rt), true), vc.iCmp("<=", t, vc.intConst(big.NewInt(int64(args[0].T.S.W)), rt), true)))
			}
			return &Val{T: t, Go: sig.Results().At(0).Type()}
		}
		r := vc.fresh("bits", SInt)
		lim := int64(32)
		if strings.HasSuffix(name, "Reverse32") {
			vc.assume(st.guard, vc.rangeFact(r, types.Typ[types.Uint32]))
		} else {
			vc.assume(st.guard, And(App(">=", SBool, r, IntLit64(0)), App("<=", SBool, r, IntLit64(lim))))
		}
		vc.assumed["stub "+name+" (int mode): result range only"] = true
		return &Val{T: r, Go: sig.Results().At(0).Type()}
	case "strconv.Itoa":
		r := vc.fresh("itoa", SInt)
		x := args[0].T
		if !vc.isBV() {
			// length of the decimal representation for small values; digits for 0..9
			vc.assume(st.guard, And(App(">=", SBool, r, IntLit64(0)), vc.iCmp(">=", vc.strLen(r), vc.idx(1), true), vc.iCmp("<=", vc.strLen(r), vc.idx(20), true),
				Implies(And(App(">=", SBool, x, IntLit64(0)), App("<=", SBool, x, IntLit64(9))), And(Eq(vc.strLen(r), vc.idx(1)), Eq(vc.strAt(r, vc.idx(0)), App("+", SInt, x, IntLit64(48))))),
				Implies(And(App(">=", SBool, x, IntLit64(10)), App("<=", SBool, x, IntLit64(99))), Eq(vc.strLen(r), vc.idx(2)))))
		}
		vc.assumed["stub strconv.Itoa: decimal string, length facts only for small values"] = true
		return &Val{T: r, Go: types.Typ[types.String]}
	}
	// default: pure, non-panicking, arbitrary result; slices passed by the caller may be written
	for i, a := range args {
		if sl, ok := a.Go.Underlying().(*types.Slice); ok && a.T != nil {
			if callee.Signature.Params().Len() > i || callee.Signature.Recv() != nil {
				if externalWritesSlices(name) {
					key, _ := vc.elemKey(sl.Elem())
					vc.havocKey(st, key)
				}
			}
		}
	}
	vc.assumed["external "+name+": assumed non-panicking, no effect on module state, arbitrary result"] = true
	if externalAllocates(sig) {
		vc.bumpWM(st)
	}
	res := fr.arbitraryResult(st, sig)
	if name == "(*golang.org/x/text/encoding.Encoder).Bytes" && len(args) == 2 && res != nil && len(res.Tuple) == 2 && res.Tuple[0].T != nil && args[1].T != nil {
		// x/text encoders emit a bounded number of bytes per input byte
		vc.assume(st.guard, vc.iCmp("<=", vc.slLen(res.Tuple[0].T), vc.iAdd(vc.iMul(vc.idx(4), vc.slLen(args[1].T)), vc.idx(64)), true))
		vc.assumed["external "+name+": result length <= 4*len(input)+64"] = true
	}
	// errors.New / fmt.Errorf style constructors return non-nil errors of an external dynamic type
	if strings.HasSuffix(name, "xerrors.New") || strings.HasSuffix(name, "xerrors.Errorf") || name == "errors.New" || name == "fmt.Errorf" {
		vc.assume(st.guard, App(">=", SBool, vc.ifTag(res.T), IntLit64(extTagBase)))
	} else {
		fr.externalIfaceTags(st, res)
	}
	return res
}

func (fr *frame) externalIfaceTags(st *State, res *Val) {
	vc := fr.vc
	do := func(v *Val) {
		if v != nil && v.T != nil && v.T.S.K == KIface {
			vc.assume(st.guard, Or(Eq(vc.ifTag(v.T), IntLit64(0)), App(">=", SBool, vc.ifTag(v.T), IntLit64(extTagBase))))
		}
	}
	if res == nil {
		return
	}
	do(res)
	for _, t := range res.Tuple {
		do(t)
	}
}

func externalWritesSlices(name string) bool {
	switch {
	case strings.HasPrefix(name, "fmt."), strings.HasPrefix(name, "strconv."), strings.HasPrefix(name, "strings."),
		strings.HasPrefix(name, "math."), strings.HasPrefix(name, "unicode"), strings.HasPrefix(name, "errors."),
		strings.Contains(name, "xerrors."):
		return false
	}
	return true
}

func externalAllocates(sig *types.Signature) bool {
	for i := 0; i < sig.Results().Len(); i++ {
		switch sig.Results().At(i).Type().Underlying().(type) {
		case *types.Pointer, *types.Slice, *types.Map, *types.Interface, *types.Signature, *types.Chan:
			return true
		}
	}
	return false
}

// bitsStub gives defining (unrolled) specifications of math/bits functions in bv mode.
func (vc *VC) bitsStub(name string, x *Term) *Term {
	bit := func(i int) *Term {
		return Eq(App(fmt.Sprintf("(_ extract %d %d)", i, i), SBV(1), x), Atom("#b1", SBV(1)))
	}
	w := x.S.W
	iw := 64
	lit := func(v int64) *Term { return BVLit(big.NewInt(v), iw) }
	switch name {
	case "TrailingZeros32":
		r := lit(int64(w))
		for i := w - 1; i >= 0; i-- {
			r = Ite(bit(i), lit(int64(i)), r)
		}
		return r
	case "Len32":
		r := lit(0)
		for i := 0; i < w; i++ {
			r = Ite(bit(i), lit(int64(i+1)), r)
		}
		return r
	case "LeadingZeros32":
		r := lit(int64(w))
		for i := 0; i < w; i++ {
			r = Ite(bit(i), lit(int64(w-1-i)), r)
		}
		return r
	case "Reverse32":
		var parts []*Term
		for i := 0; i < w; i++ {
			parts = append(parts, App(fmt.Sprintf("(_ extract %d %d)", i, i), SBV(1), x))
		}
		// concat puts first argument in the most significant position: bit0 of x becomes MSB
		r := parts[0]
		for i := 1; i < w; i++ {
			r = App("concat", SBV(i+1), r, parts[i])
		}
		return r
	case "OnesCount32", "OnesCount":
		r := lit(0)
		for i := 0; i < w; i++ {
			r = App("bvadd", SBV(iw), r, Ite(bit(i), lit(1), lit(0)))
		}
		return r
	}
	return vc.fresh("bits", SBV(iw))
}

// mergeAddrResults merges interior-pointer results (&s[i], &p.f) of several returns of an inlined callee;
// a nil result contributes to the Nil condition of the merged address.
func (vc *VC) mergeAddrResults(states []*State, rets []*retInfo, i int, rt types.Type) *Val {
	var first *Addr
	for _, r := range rets {
		if a := r.results[i].Addr; a != nil && r.results[i].T == nil {
			if first == nil {
				first = a
			} else if a.Kind != first.Kind || a.Key != first.Key || len(a.Path) != len(first.Path) || a.Alloc != first.Alloc {
				return nil
			}
		}
	}
	if first == nil {
		return nil
	}
	n := len(rets)
	refs, idxs, nils := make([]*Term, n), make([]*Term, n), make([]*Term, n)
	for j, r := range rets {
		v := r.results[i]
		if v.Addr != nil && v.T == nil {
			refs[j], idxs[j] = v.Addr.Ref, v.Addr.Idx
			nils[j] = TFalse
			if v.Addr.Nil != nil {
				nils[j] = v.Addr.Nil
			}
			for k, p := range v.Addr.Path {
				if p.IsIdx != first.Path[k].IsIdx || (!p.IsIdx && p.Field != first.Path[k].Field) || p.IsIdx {
					return nil
				}
			}
		} else {
			// must be the nil constant
			if v.T == nil {
				return nil
			}
			if lv, ok := intLitVal(v.T); !ok || lv.Sign() != 0 {
				return nil
			}
			refs[j], idxs[j] = first.Ref, first.Idx
			nils[j] = TTrue
		}
	}
	na := *first
	if first.Ref != nil {
		na.Ref = vc.mergeTerms("aref", states, refs)
	}
	if first.Idx != nil {
		na.Idx = vc.mergeTerms("aidx", states, idxs)
	}
	na.Nil = vc.mergeTerms("anil", states, nils)
	if na.Nil.IsFalse() {
		na.Nil = nil
	}
	return &Val{Addr: &na, Go: rt}
}

// callSiteAsserts checks the contract's "assert call(callee, n): e" clauses just before the n-th call of callee
// (in instruction order of the SSA walk, i.e. source order for straight-line code).
func (fr *frame) callSiteAsserts(st *State, callee *ssa.Function, pos token.Pos, args []*Val) {
	vc := fr.vc
	if !fr.top || vc.con == nil || len(vc.con.Asserts) == 0 {
		return
	}
	name := callee.Name()
	// the n-th call of this callee in source order (independent of the order in which blocks are executed symbolically)
	n := fr.callOrdinal(name, pos)
	cls := vc.con.Asserts[fmt.Sprintf("%s#%d", name, n)]
	if len(cls) > 0 {
		if vc.assertHit == nil {
			vc.assertHit = map[string]bool{}
		}
		vc.assertHit[fmt.Sprintf("%s#%d", name, n)] = true
	}
	for i, cl := range cls {
		env := vc.newEnv(st, vc.entry, vc.pkgPath)
		env.proving = true
		for j, pn := range vc.con.ParamNames {
			if pn != "_" && j < len(vc.params) {
				env.oldVars[pn] = &SVal{T: vc.params[j], Go: vc.con.ParamTypes[j]}
			}
		}
		env.local = func(nm string, s *State) *SVal { return fr.resolveLocal(nm, pos, s) }
		// arg0, arg1, ...: the actual arguments of this call (receiver first)
		for j, a := range args {
			if a != nil && a.T != nil {
				env.vars[fmt.Sprintf("arg%d", j)] = &SVal{T: a.T, Go: a.Go}
			}
		}
		t, err := env.trBool(cl.E)
		if err != nil {
			vc.specError(vc.con, cl, err)
			continue
		}
		if o := vc.oblige("assert", st, t, pos, fmt.Sprintf("assertion before call %d of %s (%s:%d): %s", n, name, cl.File, cl.Line, cl.Src)); o != nil {
			o.Name = fmt.Sprintf("%s#assert@%s.%d.%d", vc.funcName(), name, n, i)
		}
		vc.assertsSeen++
	}
}
