package main

import (
	"fmt"
	"go/types"
	"math/big"
)

// Int-mode theory of the bits of non-negative integers (used for unsigned word types).
// wbit(x, j) is "bit j of x"; the word operations are uninterpreted functions characterised bitwise.
// All axioms are theorems of integer arithmetic for the intended interpretation
// (wbit(x,j) <=> (x div 2^j) mod 2 = 1), so the theory is consistent.

func (vc *VC) bitTheory() {
	if vc.declSeen["bittheory"] {
		return
	}
	vc.declSeen["bittheory"] = true
	I := SInt
	vc.declareFun("wbit", []*Sort{I, I}, SBool)
	for _, f := range []string{"band", "bor", "bxor", "bandnot", "bshr"} {
		vc.declareFun(f, []*Sort{I, I}, I)
	}
	vc.declareFun("bnot", []*Sort{I, I}, I)
	vc.declareFun("bshl", []*Sort{I, I, I}, I)
	vc.declareFun("lowbit", []*Sort{I}, I)
	vc.pow2Term(IntLit64(0))
	x, y, j, s, w := Atom("x!b", I), Atom("y!b", I), Atom("j!b", I), Atom("s!b", I), Atom("w!b", I)
	wb := func(a, b *Term) *Term { return App("wbit", SBool, a, b) }
	ge0 := func(a *Term) *Term { return App(">=", SBool, a, IntLit64(0)) }
	le := func(a, b *Term) *Term { return App("<=", SBool, a, b) }
	lt := func(a, b *Term) *Term { return App("<", SBool, a, b) }
	add := func(f *Term) { vc.facts = append(vc.facts, f) }
	p2 := func(a *Term) *Term { return App("pow2", I, a) }
	// zero has no bits; a set bit bounds the value from below
	add(Forall([]*Term{j}, Not(wb(IntLit64(0), j)), []*Term{wb(IntLit64(0), j)}))
	add(Forall([]*Term{x, j}, Implies(And(wb(x, j), ge0(x)), And(ge0(j), le(p2(j), x))), []*Term{wb(x, j)}))
	add(Forall([]*Term{x}, Eq(wb(x, IntLit64(0)), Eq(App("mod", I, x, IntLit64(2)), IntLit64(1))), []*Term{wb(x, IntLit64(0))}))
	// bitwise operators
	bin := func(name string, f func(a, b *Term) *Term) {
		r := App(name, I, x, y)
		add(Forall([]*Term{x, y, j}, Eq(wb(r, j), f(wb(x, j), wb(y, j))), []*Term{wb(r, j)}))
	}
	bin("band", func(a, b *Term) *Term { return And(a, b) })
	bin("bor", func(a, b *Term) *Term { return Or(a, b) })
	bin("bxor", func(a, b *Term) *Term { return Not(Eq(a, b)) })
	bin("bandnot", func(a, b *Term) *Term { return And(a, Not(b)) })
	band, bor, bxor, bandnot := App("band", I, x, y), App("bor", I, x, y), App("bxor", I, x, y), App("bandnot", I, x, y)
	nn := And(ge0(x), ge0(y))
	add(Forall([]*Term{x, y}, Implies(nn, And(ge0(band), le(band, x), le(band, y))), []*Term{band}))
	add(Forall([]*Term{x, y}, Implies(nn, And(le(x, bor), le(y, bor), le(bor, App("+", I, x, y)))), []*Term{bor}))
	add(Forall([]*Term{x, y}, Implies(nn, And(ge0(bxor), le(bxor, App("+", I, x, y)))), []*Term{bxor}))
	add(Forall([]*Term{x, y}, Implies(nn, And(ge0(bandnot), le(bandnot, x))), []*Term{bandnot}))
	// complement within width w
	bn := App("bnot", I, w, x)
	add(Forall([]*Term{w, x, j}, Eq(wb(bn, j), And(ge0(j), lt(j, w), Not(wb(x, j)))), []*Term{wb(bn, j)}))
	// powers of two have exactly one bit
	add(Forall([]*Term{s, j}, Implies(ge0(s), Eq(wb(p2(s), j), Eq(j, s))), []*Term{wb(p2(s), j)}))
	add(Forall([]*Term{s}, Implies(ge0(s), App(">", SBool, p2(s), IntLit64(0))), []*Term{p2(s)}))
	// shifts
	sr := App("bshr", I, x, s)
	add(Forall([]*Term{x, s, j}, Implies(And(ge0(s), ge0(j)), Eq(wb(sr, j), wb(x, App("+", I, j, s)))), []*Term{wb(sr, j)}))
	add(Forall([]*Term{x, s}, Implies(And(ge0(x), ge0(s)), And(ge0(sr), le(sr, x))), []*Term{sr}))
	sl := App("bshl", I, w, x, s)
	add(Forall([]*Term{w, x, s, j}, Implies(ge0(s), Eq(wb(sl, j), And(ge0(j), lt(j, w), App(">=", SBool, j, s), wb(x, App("-", I, j, s))))), []*Term{wb(sl, j)}))
	add(Forall([]*Term{w, x, s}, Implies(And(ge0(x), ge0(s), ge0(w)), And(ge0(sl), lt(sl, p2(w)))), []*Term{sl}))
	// 1 << s and the low mask (1 << s) - 1
	add(Forall([]*Term{w, s}, Implies(And(ge0(s), lt(s, w)), Eq(App("bshl", I, w, IntLit64(1), s), p2(s))), []*Term{App("bshl", I, w, IntLit64(1), s)}))
	vc.declareFun("lowmask", []*Sort{I}, I)
	lm := App("lowmask", I, s)
	add(Forall([]*Term{s}, Implies(ge0(s), And(Eq(lm, App("-", I, p2(s), IntLit64(1))), ge0(lm))), []*Term{lm}))
	add(Forall([]*Term{s, j}, Implies(ge0(s), Eq(wb(lm, j), And(ge0(j), lt(j, s)))), []*Term{wb(lm, j)}))
	// a non-zero value has a lowest set bit
	lb := App("lowbit", I, x)
	add(Forall([]*Term{x}, Implies(App(">", SBool, x, IntLit64(0)), And(ge0(lb), wb(x, lb))), []*Term{lb}))
	vc.assumed["int mode: bit operations on unsigned words axiomatised bitwise (wbit theory: theorems of integer arithmetic supplied as quantified axioms)"] = true
}

func (vc *VC) wbit(x, j *Term) *Term {
	vc.bitTheory()
	return App("wbit", SBool, x, j)
}

// constBits supplies the bits of a literal operand.
func (vc *VC) constBits(c *big.Int, width int) {
	if c.Sign() < 0 {
		return
	}
	key := fmt.Sprintf("constbits:%s:%d", c.String(), width)
	if vc.declSeen[key] {
		return
	}
	vc.declSeen[key] = true
	vc.bitTheory()
	j := Atom("j!cb", SInt)
	var alts []*Term
	for k := 0; k < c.BitLen(); k++ {
		if c.Bit(k) == 1 {
			alts = append(alts, Eq(j, IntLit64(int64(k))))
		}
	}
	vc.facts = append(vc.facts, Forall([]*Term{j}, Eq(App("wbit", SBool, IntLit(c), j), Or(alts...)), []*Term{App("wbit", SBool, IntLit(c), j)}))
}

func isUnsignedType(t types.Type) (int, bool) {
	w, signed, ok := intInfo(t)
	return w, ok && !signed
}

// nonZeroWitness: for an unsigned word value compared with zero, a non-zero value has a set bit below the width.
func (vc *VC) nonZeroWitness(x *Term, t types.Type) {
	w, ok := isUnsignedType(t)
	if !ok || vc.isBV() || !vc.declSeen["bittheory"] {
		return
	}
	if _, isLit := intLitVal(x); isLit {
		return
	}
	key := "nzw:" + x.String()
	if vc.declSeen[key] {
		return
	}
	vc.declSeen[key] = true
	lb := App("lowbit", SInt, x)
	vc.facts = append(vc.facts, Implies(App(">", SBool, x, IntLit64(0)), And(App(">=", SBool, lb, IntLit64(0)), App("<", SBool, lb, IntLit64(int64(w))), App("wbit", SBool, x, lb))))
}
