package main

import (
	"encoding/json"
	"fmt"
	"go/types"
	"math/big"
	"os"
	"os/exec"
	"path/filepath"
	"sort"
	"strings"
	"sync"

	"golang.org/x/tools/go/ssa"
)

// The contents of package-level tables are extracted on every run from the compiled package itself:
// an in-package test (injected with go test -overlay, never written into /repo) walks the object graph
// reachable from the requested globals by reflection and prints it as JSON. The engine turns the dump into
// ground facts about the entry heap of a VC (one fact per field / element), so a contract that reads a table
// is checked against the values that are really compiled in (after package initialisation).

const dumpHelper = `
type zzDumper struct {
	objs  map[string]interface{}
	ids   map[uintptr]string
	next  int
}

func (d *zzDumper) id(p uintptr, kind string) (string, bool) {
	if s, ok := d.ids[p]; ok {
		return s, true
	}
	d.next++
	s := fmt.Sprintf("%s%d", kind, d.next)
	d.ids[p] = s
	return s, false
}

func (d *zzDumper) val(v reflect.Value, depth int) interface{} {
	if depth > 12 {
		return map[string]interface{}{"x": "deep"}
	}
	if v.CanAddr() && !v.CanInterface() {
		v = reflect.NewAt(v.Type(), unsafe.Pointer(v.UnsafeAddr())).Elem()
	}
	switch v.Kind() {
	case reflect.Bool:
		return v.Bool()
	case reflect.Int, reflect.Int8, reflect.Int16, reflect.Int32, reflect.Int64:
		return fmt.Sprintf("%d", v.Int())
	case reflect.Uint, reflect.Uint8, reflect.Uint16, reflect.Uint32, reflect.Uint64, reflect.Uintptr:
		return fmt.Sprintf("%d", v.Uint())
	case reflect.Float32, reflect.Float64:
		return map[string]interface{}{"f": fmt.Sprintf("%v", v.Float())}
	case reflect.String:
		return map[string]interface{}{"str": v.String()}
	case reflect.Ptr:
		if v.IsNil() {
			return nil
		}
		id, seen := d.id(v.Pointer(), "o")
		if !seen {
			d.objs[id] = nil
			d.objs[id] = d.val(v.Elem(), depth+1)
		}
		return map[string]interface{}{"p": id}
	case reflect.Slice:
		if v.IsNil() {
			return nil
		}
		if v.Len() > 5000 {
			return map[string]interface{}{"x": "long"}
		}
		id, seen := d.id(v.Pointer(), "a")
		if v.Len() == 0 {
			id = fmt.Sprintf("a_empty%d", d.next)
			d.next++
			seen = false
		}
		if !seen {
			es := make([]interface{}, v.Len())
			for i := 0; i < v.Len(); i++ {
				es[i] = d.val(v.Index(i), depth+1)
			}
			d.objs[id] = map[string]interface{}{"e": es}
		}
		return map[string]interface{}{"a": id, "l": v.Len(), "c": v.Cap()}
	case reflect.Array:
		if v.Len() > 5000 {
			return map[string]interface{}{"x": "long"}
		}
		es := make([]interface{}, v.Len())
		for i := 0; i < v.Len(); i++ {
			es[i] = d.val(v.Index(i), depth+1)
		}
		return map[string]interface{}{"e": es}
	case reflect.Struct:
		fs := make([]interface{}, v.NumField())
		if !v.CanAddr() {
			c := reflect.New(v.Type()).Elem()
			c.Set(v)
			v = c
		}
		for i := 0; i < v.NumField(); i++ {
			fs[i] = d.val(v.Field(i), depth+1)
		}
		return map[string]interface{}{"s": fs}
	case reflect.Interface:
		if v.IsNil() {
			return nil
		}
		return map[string]interface{}{"i": v.Elem().Type().String()}
	case reflect.Func:
		if v.IsNil() {
			return nil
		}
		name := ""
		if f := runtime.FuncForPC(v.Pointer()); f != nil {
			name = f.Name()
		}
		return map[string]interface{}{"fn": name}
	}
	return map[string]interface{}{"x": v.Kind().String()}
}
`

type tableDump struct {
	Roots map[string]json.RawMessage `json:"roots"`
	Objs  map[string]json.RawMessage `json:"objs"`
}

var dumpMu sync.Mutex

// dumpGlobals runs the reflective dump for the named globals of one package (cached per engine).
func (eng *Engine) dumpGlobals(pkgPath string, names []string) (*tableDump, error) {
	dumpMu.Lock()
	defer dumpMu.Unlock()
	if eng.dumps == nil {
		eng.dumps = map[string]*tableDump{}
	}
	sort.Strings(names)
	key := pkgPath + ":" + strings.Join(names, ",")
	if d, ok := eng.dumps[key]; ok {
		return d, nil
	}
	pkg := eng.PPkgs[pkgPath]
	if pkg == nil || len(pkg.GoFiles) == 0 {
		return nil, fmt.Errorf("package %s not loaded", pkgPath)
	}
	pkgDir := filepath.Dir(pkg.GoFiles[0])
	var sb strings.Builder
	fmt.Fprintf(&sb, "package %s\n\nimport (\n\t\"encoding/json\"\n\t\"fmt\"\n\t\"reflect\"\n\t\"runtime\"\n\t\"testing\"\n\t\"unsafe\"\n)\n\nvar _ unsafe.Pointer\n", pkg.Name)
	sb.WriteString(dumpHelper)
	sb.WriteString("\nfunc TestZZGovcDump(t *testing.T) {\n\td := &zzDumper{objs: map[string]interface{}{}, ids: map[uintptr]string{}}\n\troots := map[string]interface{}{}\n")
	for _, n := range names {
		fmt.Fprintf(&sb, "\troots[%q] = d.val(reflect.ValueOf(&%s).Elem(), 0)\n", n, n)
	}
	sb.WriteString("\tb, err := json.Marshal(map[string]interface{}{\"roots\": roots, \"objs\": d.objs})\n\tif err != nil {\n\t\tt.Fatal(err)\n\t}\n\tfmt.Printf(\"ZZDUMP %s\\n\", b)\n}\n")
	scratch, _ := os.MkdirTemp("/var/tmp", "govc-dump-")
	defer os.RemoveAll(scratch)
	testFile := filepath.Join(scratch, "zz_govc_dump_test.go")
	os.WriteFile(testFile, []byte(sb.String()), 0o644)
	ov := map[string]map[string]string{"Replace": {filepath.Join(pkgDir, "zz_govc_dump_test.go"): testFile}}
	ovb, _ := json.Marshal(ov)
	ovFile := filepath.Join(scratch, "overlay.json")
	os.WriteFile(ovFile, ovb, 0o644)
	cmd := exec.Command("go", "test", "-overlay", ovFile, "-vet=off", "-count=1", "-timeout", "120s", "-run", "^TestZZGovcDump$", "-v", ".")
	cmd.Dir = pkgDir
	cmd.Env = append(os.Environ(), "GOFLAGS=-mod=mod", "GOPROXY=off", "GOSUMDB=off", "GOTOOLCHAIN=local")
	out, err := cmd.CombinedOutput()
	var line string
	for _, l := range strings.Split(string(out), "\n") {
		if strings.HasPrefix(l, "ZZDUMP ") {
			line = strings.TrimPrefix(l, "ZZDUMP ")
		}
	}
	if line == "" {
		o := string(out)
		if len(o) > 1500 {
			o = o[:1500]
		}
		return nil, fmt.Errorf("table dump of %s failed: %v\n%s", pkgPath, err, o)
	}
	var d tableDump
	if err := json.Unmarshal([]byte(line), &d); err != nil {
		return nil, fmt.Errorf("table dump of %s: %v", pkgPath, err)
	}
	eng.dumps[key] = &d
	return &d, nil
}

// ---------------------------------------------------------------- dump -> heap facts

type dumpLoader struct {
	vc    *VC
	d     *tableDump
	refs  map[string]*Term // object id -> ref term
	done  map[string]bool
	facts []*Term
	nref  int64
	n     int
}

// loadGlobals asserts, as facts about the entry state, the concrete contents of the named globals.
func (vc *VC) loadGlobals(pkgPath string, names []string) error {
	d, err := vc.eng.dumpGlobals(pkgPath, names)
	if err != nil {
		return err
	}
	spkg := vc.eng.SPkgs[pkgPath]
	dl := &dumpLoader{vc: vc, d: d, refs: map[string]*Term{}, done: map[string]bool{}}
	wm0 := vc.heapGet(vc.entry, "wm")
	for _, n := range names {
		g, ok := spkg.Members[n].(*ssa.Global)
		if !ok {
			return fmt.Errorf("global %s not found in %s", n, pkgPath)
		}
		key, _ := vc.globalKey(g)
		t := g.Type().(*types.Pointer).Elem()
		val, ok := dl.value(d.Roots[n], t)
		if ok {
			dl.note(vc.heapGet(vc.entry, key), val)
		}
	}
	// all table objects are distinct, non-nil, pre-existing
	var rs []*Term
	for _, k := range sortedKeys(dl.refs) {
		rs = append(rs, dl.refs[k])
	}
	if len(rs) > 0 {
		dl.facts = append(dl.facts, App("<=", SBool, IntLit64(dl.nref+tableRefBase), wm0))
	}
	vc.facts = append(vc.facts, dl.facts...)
	vc.tableFacts += len(dl.facts)
	vc.tableEpoch++
	vc.assumed["package-level tables ("+strings.Join(names, ", ")+" of "+shortName(pkgPath)+") hold the values dumped from the compiled package on this run and are not modified after init"] = true
	return nil
}

const tableRefBase = 100000

// note records a ground cell value so that specifications reading the table at literal positions fold to literals.
func (dl *dumpLoader) note(cell, val *Term) {
	dl.facts = append(dl.facts, Eq(cell, val))
	if dl.vc.groundVals == nil {
		dl.vc.groundVals = map[string]*Term{}
	}
	if _, ok := intLitVal(val); ok || val.Op == "mk-slice" || val.IsTrue() || val.IsFalse() {
		dl.vc.groundVals[cell.String()] = val
	}
}

func (dl *dumpLoader) ref(id string) *Term {
	if r, ok := dl.refs[id]; ok {
		return r
	}
	dl.nref++
	// concrete, pairwise distinct references (literals), so no distinctness axioms are needed
	r := IntLit64(tableRefBase*int64(1+dl.vc.tableEpoch) + dl.nref)
	dl.refs[id] = r
	return r
}

func (dl *dumpLoader) value(raw json.RawMessage, t types.Type) (*Term, bool) {
	vc := dl.vc
	if len(raw) == 0 {
		return nil, false
	}
	if string(raw) == "null" {
		return vc.zero(t), true
	}
	switch u := t.Underlying().(type) {
	case *types.Basic:
		switch {
		case isInteger(t):
			var s string
			if json.Unmarshal(raw, &s) != nil {
				return nil, false
			}
			bi, ok := new(big.Int).SetString(s, 10)
			if !ok {
				return nil, false
			}
			return vc.intConst(bi, t), true
		case isBool(t):
			var b bool
			if json.Unmarshal(raw, &b) != nil {
				return nil, false
			}
			if b {
				return TTrue, true
			}
			return TFalse, true
		case isString(t):
			var m map[string]string
			if json.Unmarshal(raw, &m) != nil {
				return nil, false
			}
			return vc.strConst(m["str"]), true
		case isFloat(t):
			var m map[string]string
			if json.Unmarshal(raw, &m) != nil {
				return nil, false
			}
			r, ok := new(big.Rat).SetString(m["f"])
			if !ok {
				return nil, false
			}
			return RealLitRat(r), true
		}
		return nil, false
	case *types.Signature:
		// a function value: the named function it holds (identity only)
		var m map[string]string
		if json.Unmarshal(raw, &m) != nil || m["fn"] == "" {
			return nil, false
		}
		for _, f := range vc.eng.AllFuncs {
			if f.Parent() == nil && f.String() == m["fn"] {
				return vc.eng.funcIDTerm(f), true
			}
		}
		return nil, false
	case *types.Pointer:
		var m map[string]string
		if json.Unmarshal(raw, &m) != nil || m["p"] == "" {
			return nil, false
		}
		id := m["p"]
		r := dl.ref(id)
		if !dl.done[id] {
			dl.done[id] = true
			dl.object(r, dl.d.Objs[id], u.Elem())
		}
		return r, true
	case *types.Slice:
		var m map[string]json.RawMessage
		if json.Unmarshal(raw, &m) != nil || m["a"] == nil {
			return nil, false
		}
		var id string
		var ln, cp int64
		json.Unmarshal(m["a"], &id)
		json.Unmarshal(m["l"], &ln)
		json.Unmarshal(m["c"], &cp)
		r := dl.ref(id)
		if !dl.done[id] {
			dl.done[id] = true
			var obj struct {
				E []json.RawMessage `json:"e"`
			}
			json.Unmarshal(dl.d.Objs[id], &obj)
			key, _ := vc.elemKey(u.Elem())
			arr := Select(vc.heapGet(vc.entry, key), r)
			for i, e := range obj.E {
				if ev, ok := dl.value(e, u.Elem()); ok {
					dl.note(Select(arr, vc.idx(int64(i))), ev)
				}
			}
		}
		return vc.mkSlice(r, vc.idx(0), vc.idx(ln), vc.idx(cp)), true
	case *types.Array:
		var obj struct {
			E []json.RawMessage `json:"e"`
		}
		if json.Unmarshal(raw, &obj) != nil {
			return nil, false
		}
		s := vc.sortOf(t)
		arr := vc.fresh("tabarr", s)
		for i, e := range obj.E {
			if ev, ok := dl.value(e, u.Elem()); ok {
				dl.facts = append(dl.facts, Eq(Select(arr, vc.idx(int64(i))), ev))
			}
		}
		return arr, true
	case *types.Struct:
		var obj struct {
			S []json.RawMessage `json:"s"`
		}
		if json.Unmarshal(raw, &obj) != nil || len(obj.S) != u.NumFields() {
			return nil, false
		}
		s := vc.sortOf(t)
		fs := make([]*Term, u.NumFields())
		for i := range fs {
			if fv, ok := dl.value(obj.S[i], u.Field(i).Type()); ok {
				fs[i] = fv
			} else {
				fs[i] = vc.fresh("tabfld", vc.sortOf(u.Field(i).Type()))
			}
		}
		return vc.mkStruct(s, fs), true
	}
	return nil, false
}

// object asserts the contents of the heap object r (pointee type t).
func (dl *dumpLoader) object(r *Term, raw json.RawMessage, t types.Type) {
	vc := dl.vc
	switch u := t.Underlying().(type) {
	case *types.Struct:
		var obj struct {
			S []json.RawMessage `json:"s"`
		}
		if json.Unmarshal(raw, &obj) != nil || len(obj.S) != u.NumFields() {
			return
		}
		for i := 0; i < u.NumFields(); i++ {
			if fv, ok := dl.value(obj.S[i], u.Field(i).Type()); ok {
				key, _ := vc.fieldKey(t, i)
				dl.note(Select(vc.heapGet(vc.entry, key), r), fv)
			}
		}
	case *types.Array:
		var obj struct {
			E []json.RawMessage `json:"e"`
		}
		if json.Unmarshal(raw, &obj) != nil {
			return
		}
		key, _ := vc.elemKey(u.Elem())
		arr := Select(vc.heapGet(vc.entry, key), r)
		for i, e := range obj.E {
			if ev, ok := dl.value(e, u.Elem()); ok {
				dl.facts = append(dl.facts, Eq(Select(arr, vc.idx(int64(i))), ev))
			}
		}
	default:
		if v, ok := dl.value(raw, t); ok {
			key, _ := vc.cellKey(t)
			dl.facts = append(dl.facts, Eq(Select(vc.heapGet(vc.entry, key), r), v))
		}
	}
}
