package main

import (
	"bufio"
	"encoding/json"
	"fmt"
	"go/types"
	"golang.org/x/tools/go/ssa"
	"os"
	"os/exec"
	"path/filepath"
	"sort"
	"strconv"
	"strings"
	"sync"
	"time"
)

type KnownFinding struct {
	Property   string `json:"property"`
	Status     string `json:"status"` // "known" | "fixed"
	Obligation string `json:"obligation"`
	What       string `json:"what"`
	Witness    string `json:"witness"`
	Excuse     string `json:"excuse,omitempty"`
	Commit     string `json:"commit,omitempty"`
}

func loadKnownFindings(verifDir string) []KnownFinding {
	var out []KnownFinding
	f, err := os.Open(filepath.Join(verifDir, "known_findings.jsonl"))
	if err != nil {
		return nil
	}
	defer f.Close()
	sc := bufio.NewScanner(f)
	sc.Buffer(make([]byte, 1<<20), 1<<20)
	for sc.Scan() {
		line := strings.TrimSpace(sc.Text())
		if line == "" || strings.HasPrefix(line, "#") || strings.HasPrefix(line, "fixed:") {
			continue
		}
		var k KnownFinding
		if json.Unmarshal([]byte(line), &k) == nil {
			out = append(out, k)
		}
	}
	return out
}

type Evidence struct {
	PropertyID  string                 `json:"property_id"`
	Tier        string                 `json:"tier"`
	Seed        int                    `json:"seed"`
	Level       string                 `json:"level"`
	Coverage    map[string]interface{} `json:"coverage"`
	Assumptions []string               `json:"assumptions"`
	WallS       float64                `json:"wall_s"`
	Violations  int                    `json:"violations"`
}

func verifDir() string {
	if d := os.Getenv("VERIF_DIR"); d != "" {
		return d
	}
	exe, err := os.Executable()
	if err == nil {
		d := filepath.Dir(filepath.Dir(exe))
		if _, err := os.Stat(filepath.Join(d, "properties.jsonl")); err == nil {
			return d
		}
	}
	return "/verif"
}

func runCheck(repo, prop, tier string, opts SolveOpts) int {
	t0 := time.Now()
	vdir := verifDir()
	seed := 0
	if s := os.Getenv("VERIF_SEED"); s != "" {
		seed, _ = strconv.Atoi(s)
	}
	if t := os.Getenv("VERIF_TIER"); t != "" && tier == "" {
		tier = t
	}
	if tier != "thorough" {
		tier = "quick"
	}
	if tier == "thorough" {
		opts.AllSolvers = true
		opts.SingleMs = 180000
		opts.QuickMs = 10000
	}
	evPath := filepath.Join(vdir, "evidence", prop+".json")
	os.MkdirAll(filepath.Dir(evPath), 0o755)
	os.Remove(evPath)
	fail := func(msg string) int {
		// engine-level failure: the property is undecided; report as a violation of the binding obligation
		rp := filepath.Join(vdir, "replays", prop, "engine-error.json")
		os.MkdirAll(filepath.Dir(rp), 0o755)
		b, _ := json.MarshalIndent(map[string]string{"property": prop, "obligation": "engine#load-and-bind", "solver_output": msg}, "", " ")
		os.WriteFile(rp, b, 0o644)
		fmt.Printf("govc: %s\n", msg)
		fmt.Printf("VIOLATION property=%s replay=%s obligation=engine#load-and-bind no-failing-input-found\n", prop, rp)
		ev := Evidence{PropertyID: prop, Tier: tier, Seed: seed, Level: "proof", WallS: time.Since(t0).Seconds(), Violations: 1, Assumptions: []string{},
			Coverage: map[string]interface{}{"obligations": 1, "discharged": 0, "checker_cmd": "govc check", "trusted_base": []string{}, "explanation": msg, "samples": []string{"engine#load-and-bind: " + msg},
				"evaluations": 1, "distinct_nontrivial": 0}}
		b, _ = json.MarshalIndent(ev, "", " ")
		os.WriteFile(evPath, b, 0o644)
		return 1
	}
	eng, err := loadEngine(repo)
	if err != nil {
		return fail("cannot load /repo with contracts: " + err.Error())
	}
	eng.computeEffects()
	if prop == "C18" {
		return runFrameProperty(eng, prop, tier, seed, t0, vdir, evPath)
	}
	var items []*Contract
	var deferred []string
	for _, c := range eng.Items {
		if c.hasProp(prop) {
			if c.Opts["tier"] == "thorough" && tier != "thorough" {
				// proofs that need more solver time than the quick tier allows are only run in the thorough tier
				deferred = append(deferred, shortName(c.Name))
				continue
			}
			items = append(items, c)
		}
	}
	// a contract on a func-typed struct field is an obligation on every function stored into that field
	var fieldErrs []string
	for _, c := range append([]*Contract{}, items...) {
		if c.Kind != "field" {
			continue
		}
		impls, err := eng.fieldImplementers(c)
		if err != nil {
			fieldErrs = append(fieldErrs, err.Error())
			continue
		}
		for _, f := range impls {
			d := *c
			d.Kind = "func"
			d.Fn = f
			d.Name = f.String() + " (as " + shortName(c.Name) + ")"
			items = append(items, &d)
		}
	}
	if len(fieldErrs) > 0 {
		return fail("field contract: " + strings.Join(fieldErrs, "; "))
	}
	if len(items) == 0 {
		return fail("no contract carries property " + prop)
	}
	known := loadKnownFindings(vdir)
	results := make([]*FuncResult, len(items))
	var wg sync.WaitGroup
	sem := make(chan struct{}, 8)
	for i, c := range items {
		wg.Add(1)
		go func(i int, c *Contract) {
			defer wg.Done()
			sem <- struct{}{}
			defer func() { <-sem }()
			switch c.Kind {
			case "lemma":
				results[i] = verifyLemma(eng, c, opts)
			case "func":
				results[i] = verifyFunc(eng, c.Fn, c, opts)
			default:
				results[i] = verifyIfaceContract(eng, c, opts)
			}
		}(i, c)
	}
	wg.Wait()

	total, discharged := 0, 0
	bySolver := map[string]int{}
	var solverMs int64
	assumed := map[string]bool{}
	var samples []interface{}
	var funcs []string
	uncontracted := map[string]bool{}
	inlined := map[string]bool{}
	contracted := map[string]bool{}
	var unmodelled []string
	var failures []struct {
		r *FuncResult
		o *Obl
	}
	var specErrs []string
	byKind := map[string]int{}
	loops := 0
	folded := 0
	for _, r := range results {
		if r == nil {
			continue
		}
		funcs = append(funcs, r.Name)
		for _, e := range r.VC.specErrs {
			specErrs = append(specErrs, r.Name+": "+e)
		}
		for a := range r.VC.assumed {
			assumed[a] = true
		}
		for c := range r.VC.calleesNoContract {
			uncontracted[c] = true
		}
		for c := range r.VC.inlined {
			inlined[c] = true
		}
		for c := range r.VC.calleesContract {
			contracted[c] = true
		}
		for _, u := range r.VC.unmodeled {
			unmodelled = append(unmodelled, r.Name+": "+u)
		}
		loops += r.VC.loopsSeen
		folded += r.VC.foldedCases
		for _, o := range r.Obls {
			total++
			byKind[o.Kind]++
			solverMs += o.Millis
			if o.discharged() {
				discharged++
				bySolver[o.Solver]++
				if len(samples) < 12 && (o.Kind == "post" || o.Kind == "lemma" || len(samples) < 4) {
					samples = append(samples, map[string]interface{}{"obligation": o.Name, "kind": o.Kind, "what": o.Desc, "status": o.Status, "solver": o.Solver, "ms": o.Millis})
				}
			} else {
				failures = append(failures, struct {
					r *FuncResult
					o *Obl
				}{r, o})
			}
		}
	}
	sort.Strings(funcs)
	exit := 0
	violations := 0
	var knownPrinted []string
	if len(specErrs) > 0 {
		for _, e := range specErrs {
			fmt.Println("spec error:", e)
		}
		rp := filepath.Join(vdir, "replays", prop, "contract-binding.json")
		os.MkdirAll(filepath.Dir(rp), 0o755)
		b, _ := json.MarshalIndent(map[string]interface{}{"property": prop, "obligation": "contracts#bind", "solver_output": specErrs}, "", " ")
		os.WriteFile(rp, b, 0o644)
		fmt.Printf("VIOLATION property=%s replay=%s obligation=contracts#bind no-failing-input-found\n", prop, rp)
		violations++
		exit = 1
	}
	scratchBase, _ := os.MkdirTemp("/var/tmp", "govc-replay-")
	defer os.RemoveAll(scratchBase)
	for i, f := range failures {
		o := f.o
		// known finding?
		var kf *KnownFinding
		for k := range known {
			if known[k].Status == "known" && known[k].Property == prop && known[k].Obligation == o.Name {
				kf = &known[k]
			}
		}
		rf := buildReplay(f.r.VC, o, prop)
		if rf.TestSource != "" {
			runReplay(eng, rf, filepath.Join(scratchBase, fmt.Sprintf("r%d", i)))
		}
		rp := filepath.Join(vdir, "replays", prop, sanitizeFile(o.Name)+".json")
		os.MkdirAll(filepath.Dir(rp), 0o755)
		if kf != nil {
			rf.Excused = kf.What
		}
		b, _ := json.MarshalIndent(rf, "", " ")
		os.WriteFile(rp, b, 0o644)
		if kf != nil && excuseHolds(eng, f.r, o, kf, opts) {
			msg := fmt.Sprintf("KNOWN-FINDING: property=%s %s %s (witness: %s)", prop, o.Name, kf.What, kf.Witness)
			fmt.Println(msg)
			knownPrinted = append(knownPrinted, msg)
			discharged++ // counted as decided: fails only on the recorded inputs
			continue
		}
		violations++
		exit = 1
		tail := ""
		if !rf.Reproduced {
			tail = " no-failing-input-found"
		}
		pos := rf.Position
		fmt.Printf("  failed obligation %s [%s] %s — %s (%s)\n", o.Name, o.Status, pos, o.Desc, rf.Note)
		for _, in := range rf.Inputs {
			fmt.Printf("      input %s\n", in)
		}
		fmt.Printf("VIOLATION property=%s replay=%s obligation=%s%s\n", prop, rp, o.Name, tail)
	}
	var assumptions []string
	for a := range assumed {
		assumptions = append(assumptions, a)
	}
	sort.Strings(assumptions)
	assumptions = append(assumptions,
		"Go semantics as encoded by govc from go/ssa (naive form): goroutines, channels, select, recover and non-trivial defer are outside the modelled subset (their presence is reported as unmodelled)",
		"termination is proved only for loops that carry a decreases clause",
		"int arithmetic overflow is not checked unless the contract says 'opt overflow=on' (machine integers treated as mathematical in int mode; exact 64-bit vectors in bv mode)",
		"callees without a contract are either inlined (small, loop-free) or havoc the heap components the effect analysis says they may write; their own panics are not part of this function's obligations")
	var trusted []string
	trusted = append(trusted, "govc VC generator (this repository, /verif/engine)", "go/ssa + go/types (golang.org/x/tools v0.29.0)", "SMT solvers: z3 5.1.0, z3 4.8.12, cvc5 1.0 (an obligation counts as discharged when one of them answers unsat)")
	for _, r := range results {
		if r != nil && r.Con != nil && r.Con.Trusted {
			trusted = append(trusted, "trusted contract (not verified): "+r.Name)
		}
	}
	keysOf := func(m map[string]bool) []string {
		var ks []string
		for k := range m {
			ks = append(ks, k)
		}
		sort.Strings(ks)
		return ks
	}
	if len(samples) == 0 {
		samples = append(samples, "no discharged obligations")
	}
	ev := Evidence{PropertyID: prop, Tier: tier, Seed: seed, Level: "proof", Assumptions: assumptions, WallS: time.Since(t0).Seconds(), Violations: violations,
		Coverage: map[string]interface{}{
			"obligations": total, "discharged": discharged,
			"checker_cmd":               fmt.Sprintf("bin/govc check --property %s --tier %s", prop, tier),
			"trusted_base":              trusted,
			"samples":                   samples,
			"functions_under_contract":  funcs,
			"obligations_by_kind":       byKind,
			"discharged_by_solver":      bySolver,
			"solver_time_ms":            solverMs,
			"loops_cut_with_invariants": loops,
			"lemma_cases_decided_by_constant_folding_in_the_generator": folded,
			"callees_with_contract":             keysOf(contracted),
			"callees_inlined":                   keysOf(inlined),
			"callees_without_contract_havocked": keysOf(uncontracted),
			"unmodelled":                        unmodelled,
			"known_findings_printed":            knownPrinted,
			"deferred_to_thorough_tier":         deferred,
			"explanation":                       "every obligation is generated from the go/ssa form of /repo's current working tree (tag verif) and discharged by an SMT solver; see DESIGN.md",
		}}
	addBounded(eng, prop, tier, &ev, &exit, vdir)
	b, _ := json.MarshalIndent(ev, "", " ")
	os.WriteFile(evPath, b, 0o644)
	fmt.Printf("property %s tier %s: %d/%d obligations discharged over %d contract items, %d violation(s), %.1fs\n", prop, tier, discharged, total, len(items), ev.Violations, time.Since(t0).Seconds())
	return exit
}

// excuseHolds re-checks a known-finding obligation under requires && !excuse: it must discharge.
func excuseHolds(eng *Engine, r *FuncResult, o *Obl, kf *KnownFinding, opts SolveOpts) bool {
	if kf.Excuse == "" || r.Con == nil || r.Fn == nil {
		return false
	}
	e, err := parseSpecExpr("!(" + kf.Excuse + ")")
	if err != nil {
		return false
	}
	c2 := *r.Con
	c2.Requires = append(append([]*Clause{}, r.Con.Requires...), &Clause{E: e, Src: "!(" + kf.Excuse + ")", File: "known_findings.jsonl"})
	r2 := verifyFunc(eng, r.Fn, &c2, opts)
	for _, o2 := range r2.Obls {
		if o2.Name == o.Name {
			return o2.discharged()
		}
	}
	return true // obligation no longer generated under the excuse: nothing else fails there
}

func verifyIfaceContract(eng *Engine, c *Contract, opts SolveOpts) *FuncResult {
	// interface / field contracts are checked through their implementers (which carry their own contracts);
	// here only well-formedness (translatability) is checked.
	vc := newVC(eng, nil, c)
	vc.entry = &State{guard: TTrue, base: "0"}
	return &FuncResult{Name: shortName(c.Name), Con: c, VC: vc}
}

// fieldImplementers: the functions stored anywhere in the module into the func-typed field a field contract is attached to.
// A store of anything but a named top-level function (a closure, a parameter, ...) makes the contract undecidable here: error.
func (eng *Engine) fieldImplementers(c *Contract) ([]*ssa.Function, error) {
	return eng.fieldImplsByKey(c.Name)
}

var fieldImplMu sync.Mutex

func (eng *Engine) fieldImplsByKey(fieldKey string) ([]*ssa.Function, error) {
	fieldImplMu.Lock()
	defer fieldImplMu.Unlock()
	if eng.fieldImplCache == nil {
		eng.fieldImplCache = map[string][]*ssa.Function{}
		eng.fieldImplErr = map[string]error{}
	}
	if r, ok := eng.fieldImplCache[fieldKey]; ok {
		return r, eng.fieldImplErr[fieldKey]
	}
	r, err := eng.fieldImplsScan(fieldKey)
	eng.fieldImplCache[fieldKey] = r
	eng.fieldImplErr[fieldKey] = err
	return r, err
}

func (eng *Engine) fieldImplsScan(fieldKey string) ([]*ssa.Function, error) {
	seen := map[*ssa.Function]bool{}
	var out []*ssa.Function
	for _, fn := range eng.AllFuncs {
		for _, b := range fn.Blocks {
			for _, in := range b.Instrs {
				st, ok := in.(*ssa.Store)
				if !ok {
					continue
				}
				fa, ok := st.Addr.(*ssa.FieldAddr)
				if !ok {
					continue
				}
				pt, ok := fa.X.Type().Underlying().(*types.Pointer)
				if !ok {
					continue
				}
				nt, ok := pt.Elem().(*types.Named)
				if !ok {
					continue
				}
				stt, ok := nt.Underlying().(*types.Struct)
				if !ok || nt.Obj().Pkg() == nil {
					continue
				}
				key := nt.Obj().Pkg().Path() + "." + nt.Obj().Name() + "." + stt.Field(fa.Field).Name()
				if key != fieldKey {
					continue
				}
				f, ok := st.Val.(*ssa.Function)
				if !ok {
					if cst, isC := st.Val.(*ssa.Const); isC && cst.IsNil() {
						continue
					}
					return nil, fmt.Errorf("%s: a value that is not a named function is stored into the field in %s", shortName(fieldKey), shortFuncName(fn))
				}
				if !seen[f] {
					seen[f] = true
					out = append(out, f)
				}
			}
		}
	}
	if len(out) == 0 {
		return nil, fmt.Errorf("%s: no function is ever stored into the field", shortName(fieldKey))
	}
	return out, nil
}

// addBounded runs the bounded stand-ins of a property (labelled bounded in the evidence, never counted as discharged
// obligations). C04: the Reed-Solomon decoder, which is not under contract, is exercised on the real code against an
// independent table-free arithmetic: encode -> zero syndromes -> corrupt up to floor(r/2) symbols -> decode.
func addBounded(eng *Engine, prop, tier string, ev *Evidence, exit *int, vdir string) {
	if prop != "C04" {
		return
	}
	src := filepath.Join(vdir, "bounded", "c04_rs_test.go.txt")
	pkgDir := filepath.Join(eng.RepoDir, "common", "reedsolomon")
	scratch, _ := os.MkdirTemp("/var/tmp", "govc-bounded-")
	defer os.RemoveAll(scratch)
	ov := map[string]map[string]string{"Replace": {filepath.Join(pkgDir, "zz_bounded_test.go"): src}}
	ovb, _ := json.Marshal(ov)
	ovFile := filepath.Join(scratch, "overlay.json")
	os.WriteFile(ovFile, ovb, 0o644)
	t0 := time.Now()
	cmd := exec.Command("go", "test", "-overlay", ovFile, "-vet=off", "-count=1", "-timeout", "600s", "-run", "^TestZZBoundedRS$", "-v", ".")
	cmd.Dir = pkgDir
	cmd.Env = append(os.Environ(), "GOFLAGS=-mod=mod", "GOPROXY=off", "GOSUMDB=off", "GOTOOLCHAIN=local", "ZZ_TIER="+tier)
	out, _ := cmd.CombinedOutput()
	evals, fails := -1, -1
	var failLines []string
	for _, l := range strings.Split(string(out), "\n") {
		if strings.HasPrefix(l, "ZZBOUNDED ") {
			fmt.Sscanf(l, "ZZBOUNDED evaluations=%d failures=%d", &evals, &fails)
		}
		if strings.HasPrefix(l, "ZZFAIL ") {
			failLines = append(failLines, strings.TrimPrefix(l, "ZZFAIL "))
		}
	}
	b := map[string]interface{}{
		"label":       "bounded (not a proof; not counted in obligations/discharged)",
		"function":    "ReedSolomonDecoder.Decode (with ReedSolomonEncoder.Encode) on the real code, all six fields",
		"bound":       "shapes (k,r) in {(1,2),(2,2),(3,4),(5,4),(4,6)} (thorough: also (9,6),(10,8),(3,10)); GF(16) data exhaustive for k<=2, otherwise deterministic pseudo-random data; every single-error position with several magnitudes (all 15 for GF(16)), double errors over all position pairs for short words, floor(r/2) random errors; uncorrupted words; growing parity counts on one encoder",
		"oracle":      "carry-less multiplication modulo the primitive polynomial (no tables): all r syndromes of the encoded word are zero; decode(corrupted) == encoded word",
		"evaluations": evals,
		"failures":    fails,
		"wall_s":      time.Since(t0).Seconds(),
	}
	ev.Coverage["bounded_stand_in"] = b
	if evals <= 0 || fails != 0 {
		os.MkdirAll(filepath.Join(vdir, "replays", prop), 0o755)
		rp := filepath.Join(vdir, "replays", prop, "bounded-reedsolomon.json")
		o := string(out)
		if len(o) > 6000 {
			o = o[:6000]
		}
		rb, _ := json.MarshalIndent(map[string]interface{}{"obligation": "bounded:ReedSolomon encode/decode", "failing_inputs": failLines, "go_test_output": o,
			"rerun": "cd /repo/common/reedsolomon && go test -overlay <overlay mapping zz_bounded_test.go to /verif/bounded/c04_rs_test.go.txt> -run TestZZBoundedRS -v ."}, "", " ")
		os.WriteFile(rp, rb, 0o644)
		suffix := ""
		if len(failLines) == 0 {
			suffix = " no-failing-input-found"
		}
		fmt.Printf("  bounded stand-in failed: %s\n", strings.Join(failLines, " | "))
		fmt.Printf("VIOLATION property=%s replay=%s obligation=bounded:reedsolomon%s\n", prop, rp, suffix)
		ev.Violations++
		*exit = 1
	}
}

// runFrameProperty decides C18 by the whole-module frame (effect) checker instead of SMT obligations.
func runFrameProperty(eng *Engine, prop, tier string, seed int, t0 time.Time, vdir, evPath string) int {
	sites, fa := runFrameCheck(eng)
	known := loadKnownFindings(vdir)
	total, ok := 0, 0
	var samples []interface{}
	exit := 0
	violations := 0
	var knownPrinted []string
	for _, s := range sites {
		total++
		if s.ok {
			ok++
			if len(samples) < 10 {
				samples = append(samples, map[string]interface{}{"obligation": "frame: " + s.String(eng), "status": "target not reachable from any package-level variable"})
			}
			continue
		}
		name := "frame#" + shortFuncName(s.fn) + ":" + s.what
		isKnown := false
		for _, k := range known {
			if k.Status == "known" && k.Property == prop && k.Obligation == name {
				msg := fmt.Sprintf("KNOWN-FINDING: property=%s %s %s", prop, name, k.What)
				fmt.Println(msg)
				knownPrinted = append(knownPrinted, msg)
				isKnown = true
			}
		}
		if isKnown {
			ok++
			continue
		}
		violations++
		exit = 1
		rp := filepath.Join(vdir, "replays", prop, sanitizeFile(name)+".json")
		os.MkdirAll(filepath.Dir(rp), 0o755)
		b, _ := json.MarshalIndent(map[string]interface{}{"property": prop, "obligation": name, "site": s.String(eng),
			"solver_output": "frame checker: the written object may be reachable from a package-level variable (global-reachability taint reaches the store target)",
			"note":          "no schedule is constructed by this technique; the obligation is the absence of writes to shared state"}, "", " ")
		os.WriteFile(rp, b, 0o644)
		fmt.Printf("  failed obligation %s\n", s.String(eng))
		fmt.Printf("VIOLATION property=%s replay=%s obligation=%s no-failing-input-found\n", prop, rp, name)
	}
	var entries []string
	for _, e := range fa.entries {
		entries = append(entries, shortFuncName(e))
	}
	if len(entries) > 40 {
		entries = append(entries[:40], fmt.Sprintf("... (%d entry points in total)", len(fa.entries)))
	}
	if len(samples) == 0 {
		samples = append(samples, "no write sites")
	}
	ev := Evidence{PropertyID: prop, Tier: tier, Seed: seed, Level: "proof", WallS: time.Since(t0).Seconds(), Violations: violations,
		Assumptions: []string{
			"the Go memory model: a data race needs two conflicting accesses to one location, at least one a write; code that never writes a location reachable from shared (package-level) state cannot race on library state when callers use private instances",
			"call graph by class-hierarchy analysis over the module (interface calls resolved to every implementing method, function values to every module function of identical signature)",
			"external packages (standard library, x/text, xerrors) are assumed not to write module state",
			"package initialisers are the only code allowed to write package-level state; they run before any reader or writer call",
			"no schedule exploration and no -race run is part of this check"},
		Coverage: map[string]interface{}{
			"obligations": total, "discharged": ok,
			"checker_cmd":                           fmt.Sprintf("bin/govc check --property %s --tier %s", prop, tier),
			"trusted_base":                          []string{"govc frame/effect checker (global-reachability taint over go/ssa)", "go/ssa + go/types (golang.org/x/tools v0.29.0)"},
			"samples":                               samples,
			"entry_points":                          entries,
			"functions_reachable_from_entry_points": len(fa.order),
			"write_sites_checked":                   total,
			"known_findings_printed":                knownPrinted,
			"explanation":                           "every store, map update, append/copy destination in every function reachable from a reader/writer entry point is an obligation: its target must not be reachable from a package-level variable",
		}}
	b, _ := json.MarshalIndent(ev, "", " ")
	os.WriteFile(evPath, b, 0o644)
	fmt.Printf("property %s tier %s: %d/%d write sites in %d reachable functions are frame-safe, %d violation(s), %.1fs\n", prop, tier, ok, total, len(fa.order), violations, time.Since(t0).Seconds())
	return exit
}
