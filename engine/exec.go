package main

import (
	"fmt"
	"go/constant"
	"go/token"
	"go/types"
	"math/big"
	"strings"

	"golang.org/x/tools/go/ssa"
)

type inEdge struct {
	st   *State
	from *ssa.BasicBlock
}

type retInfo struct {
	st      *State
	results []*Val
	pos     token.Pos
}

type loopInfo struct {
	header  *ssa.BasicBlock
	blocks  map[*ssa.BasicBlock]bool
	ordinal int
	// computed
	storedLocals map[*ssa.Alloc]bool
	heapWrites   map[string]bool
	allocInits   map[string]bool
	havocAll     bool
	allocs       bool
	elemBases    map[string][]ssa.Value // elem key -> base slice values (nil entry => unknown base)
	// per-run
	pre  *State
	head *State
	invs []*invInst
	dec0 *Term
	spec *LoopSpec
}

type invInst struct {
	name string
	eval func(st *State) *Term
	auto int
	pos  token.Pos
}

type autoInv struct {
	id   int
	desc string
}

type frame struct {
	vc         *VC
	fn         *ssa.Function
	vals       map[ssa.Value]*Val
	inst       string
	depth      int
	top        bool
	rets       []*retInfo
	loops      []*loopInfo
	loopOf     map[*ssa.BasicBlock]*loopInfo
	cells      map[*ssa.Alloc]bool
	stack      []*ssa.Function
	iters      map[ssa.Value]*Val
	provingInv bool
}

func (vc *VC) newFrame(fn *ssa.Function, depth int, top bool, stack []*ssa.Function) *frame {
	vc.nfresh++
	fr := &frame{vc: vc, fn: fn, vals: map[ssa.Value]*Val{}, depth: depth, top: top,
		loopOf: map[*ssa.BasicBlock]*loopInfo{}, cells: map[*ssa.Alloc]bool{}, stack: append(append([]*ssa.Function{}, stack...), fn),
		iters: map[ssa.Value]*Val{}}
	if top {
		fr.inst = ""
	} else {
		fr.inst = fmt.Sprintf("i%d!", vc.nfresh)
	}
	fr.classifyAllocs()
	fr.findLoops()
	return fr
}

// classifyAllocs decides which Allocs are plain local cells (never escape as first-class pointers).
func (fr *frame) classifyAllocs() {
	for _, b := range fr.fn.Blocks {
		for _, in := range b.Instrs {
			a, ok := in.(*ssa.Alloc)
			if !ok {
				continue
			}
			if a.Heap {
				continue
			}
			if addrOnlyUses(a, 0) {
				fr.cells[a] = true
			}
		}
	}
}

func addrOnlyUses(v ssa.Value, depth int) bool {
	refs := v.Referrers()
	if refs == nil {
		return false
	}
	for _, r := range *refs {
		switch r := r.(type) {
		case *ssa.Store:
			if r.Val == v {
				return false
			}
		case *ssa.UnOp:
			if r.Op != token.MUL {
				return false
			}
		case *ssa.DebugRef:
		case *ssa.FieldAddr:
			if depth > 4 || !addrOnlyUses(r, depth+1) {
				return false
			}
		case *ssa.IndexAddr:
			if r.X != v || depth > 4 || !addrOnlyUses(r, depth+1) {
				return false
			}
		default:
			return false
		}
	}
	return true
}

func isBackEdge(from, to *ssa.BasicBlock) bool { return to.Dominates(from) }

func (fr *frame) findLoops() {
	var headers []*ssa.BasicBlock
	seen := map[*ssa.BasicBlock]bool{}
	for _, b := range fr.fn.Blocks {
		for _, s := range b.Succs {
			if isBackEdge(b, s) && !seen[s] {
				seen[s] = true
				headers = append(headers, s)
			}
		}
	}
	// source order == order of header block position; use the block's first position, fallback index
	sortBlocksBySource(headers)
	for i, h := range headers {
		li := &loopInfo{header: h, blocks: map[*ssa.BasicBlock]bool{h: true}, ordinal: i}
		// natural loop: all nodes that can reach a latch without passing through h
		var work []*ssa.BasicBlock
		for _, p := range h.Preds {
			if isBackEdge(p, h) {
				if !li.blocks[p] {
					li.blocks[p] = true
					work = append(work, p)
				}
			}
		}
		for len(work) > 0 {
			n := work[len(work)-1]
			work = work[:len(work)-1]
			for _, p := range n.Preds {
				if !li.blocks[p] {
					li.blocks[p] = true
					work = append(work, p)
				}
			}
		}
		fr.loops = append(fr.loops, li)
		fr.loopOf[h] = li
	}
}

func blockPos(b *ssa.BasicBlock) token.Pos {
	for _, in := range b.Instrs {
		if p := in.Pos(); p.IsValid() {
			return p
		}
	}
	return token.NoPos
}

func sortBlocksBySource(hs []*ssa.BasicBlock) {
	// loop "position": minimal valid position over instructions of header; ties by index
	key := func(b *ssa.BasicBlock) (token.Pos, int) { return loopPos(b), b.Index }
	for i := 1; i < len(hs); i++ {
		for j := i; j > 0; j-- {
			p1, i1 := key(hs[j-1])
			p2, i2 := key(hs[j])
			if p1 > p2 || (p1 == p2 && i1 > i2) {
				hs[j-1], hs[j] = hs[j], hs[j-1]
			} else {
				break
			}
		}
	}
}

// loopPos approximates the source position of the loop statement owning header h.
func loopPos(h *ssa.BasicBlock) token.Pos {
	best := token.NoPos
	visit := func(b *ssa.BasicBlock) {
		for _, in := range b.Instrs {
			if p := in.Pos(); p.IsValid() && (best == token.NoPos || p < best) {
				best = p
			}
		}
	}
	visit(h)
	if best == token.NoPos {
		for _, s := range h.Succs {
			visit(s)
		}
	}
	return best
}

// ---------------------------------------------------------------- running a function body

func (fr *frame) rpo() ([]*ssa.BasicBlock, bool) {
	var order []*ssa.BasicBlock
	state := map[*ssa.BasicBlock]int{}
	ok := true
	var dfs func(b *ssa.BasicBlock)
	dfs = func(b *ssa.BasicBlock) {
		state[b] = 1
		for _, s := range b.Succs {
			if isBackEdge(b, s) {
				continue
			}
			if state[s] == 1 {
				ok = false // irreducible
				continue
			}
			if state[s] == 0 {
				dfs(s)
			}
		}
		state[b] = 2
		order = append(order, b)
	}
	dfs(fr.fn.Blocks[0])
	for i, j := 0, len(order)-1; i < j; i, j = i+1, j-1 {
		order[i], order[j] = order[j], order[i]
	}
	return order, ok
}

func (fr *frame) run(st0 *State) {
	vc := fr.vc
	order, ok := fr.rpo()
	if !ok {
		vc.note("irreducible control flow in " + shortFuncName(fr.fn))
		return
	}
	ins := map[*ssa.BasicBlock][]inEdge{}
	ins[fr.fn.Blocks[0]] = []inEdge{{st0, nil}}
	for _, b := range order {
		edges := ins[b]
		if len(edges) == 0 {
			continue
		}
		var st *State
		if li := fr.loopOf[b]; li != nil {
			st = fr.enterLoop(li, edges)
		} else {
			st = vc.mergeEdges(edges)
		}
		// phis
		for _, in := range b.Instrs {
			phi, isPhi := in.(*ssa.Phi)
			if !isPhi {
				break
			}
			fr.execPhi(phi, b, edges)
		}
		fr.execBlock(b, st, ins)
	}
}

func (vc *VC) mergeEdges(edges []inEdge) *State {
	if len(edges) == 1 {
		return edges[0].st.clone()
	}
	states := make([]*State, len(edges))
	for i, e := range edges {
		states[i] = e.st
	}
	return vc.merge(states)
}

func (vc *VC) merge(states []*State) *State {
	if len(states) == 1 {
		return states[0].clone()
	}
	var gs []*Term
	for _, s := range states {
		gs = append(gs, s.guard)
	}
	out := &State{locals: map[*ssa.Alloc]*Term{}, heap: map[string]*Term{}}
	out.guard = vc.define("g", Or(gs...))
	// bases
	base := states[0].base
	same := true
	for _, s := range states[1:] {
		if s.base != base {
			same = false
		}
	}
	keys := map[string]bool{}
	for _, s := range states {
		for k := range s.heap {
			keys[k] = true
		}
	}
	if !same {
		for k := range vc.heapSorts {
			keys[k] = true
		}
		vc.nfresh++
		out.base = fmt.Sprintf("m%d", vc.nfresh)
	} else {
		out.base = base
	}
	for _, k := range sortedKeys(keys) {
		ts := make([]*Term, len(states))
		for i, s := range states {
			ts[i] = vc.heapGet(s, k)
		}
		out.heap[k] = vc.mergeTerms("h", states, ts)
	}
	allocs := map[*ssa.Alloc]bool{}
	for _, s := range states {
		for a := range s.locals {
			allocs[a] = true
		}
	}
	for a := range allocs {
		ts := make([]*Term, len(states))
		okAll := true
		for i, s := range states {
			ts[i] = s.locals[a]
			if ts[i] == nil {
				okAll = false
			}
		}
		if !okAll {
			// not yet allocated on some path: value irrelevant there; take any defined one
			var d *Term
			for _, t := range ts {
				if t != nil {
					d = t
				}
			}
			for i := range ts {
				if ts[i] == nil {
					ts[i] = d
				}
			}
		}
		out.locals[a] = vc.mergeTerms("l!"+a.Comment, states, ts)
	}
	return out
}

func (vc *VC) mergeTerms(hint string, states []*State, ts []*Term) *Term {
	same := true
	for _, t := range ts[1:] {
		if t != ts[0] && !(len(t.Args) == 0 && len(ts[0].Args) == 0 && t.Op == ts[0].Op) {
			same = false
			break
		}
	}
	if same {
		return ts[0]
	}
	r := ts[len(ts)-1]
	for i := len(ts) - 2; i >= 0; i-- {
		r = Ite(states[i].guard, ts[i], r)
	}
	return vc.define(hint, r)
}

func (fr *frame) execPhi(phi *ssa.Phi, b *ssa.BasicBlock, edges []inEdge) {
	vc := fr.vc
	var r *Term
	// map pred block -> edge value index
	for i := len(edges) - 1; i >= 0; i-- {
		e := edges[i]
		var v *Term
		for pi, p := range b.Preds {
			if p == e.from {
				v = fr.term(e.st, phi.Edges[pi])
				break
			}
		}
		if v == nil {
			continue
		}
		if r == nil {
			r = v
		} else {
			r = Ite(e.st.guard, v, r)
		}
	}
	if r == nil {
		r = vc.fresh("phi", vc.sortOf(phi.Type()))
	}
	fr.vals[phi] = &Val{T: vc.define(fr.inst+phi.Name(), r), Go: phi.Type()}
}

func (fr *frame) regName(v ssa.Value) string {
	return fr.inst + v.Name()
}

func (fr *frame) setT(v ssa.Value, t *Term) {
	fr.vals[v] = &Val{T: fr.vc.define(fr.regName(v), t), Go: v.Type()}
}

// ---------------------------------------------------------------- operands

func (fr *frame) val(st *State, v ssa.Value) *Val {
	if x, ok := fr.vals[v]; ok {
		return x
	}
	vc := fr.vc
	switch v := v.(type) {
	case *ssa.Const:
		return &Val{T: vc.constTerm(v), Go: v.Type()}
	case *ssa.Global:
		key, _ := vc.globalKey(v)
		t := v.Type().(*types.Pointer).Elem()
		return &Val{Addr: &Addr{Kind: AGlobal, Key: key, Root: t, Typ: t}, Go: v.Type()}
	case *ssa.Function:
		return &Val{Fn: v, T: vc.eng.funcIDTerm(v), Go: v.Type()}
	case *ssa.Builtin:
		return &Val{Go: v.Type()}
	case *ssa.FreeVar:
		vc.note("free variable (closure body) " + v.Name())
		x := &Val{T: vc.fresh("freevar", vc.sortOf(v.Type())), Go: v.Type()}
		fr.vals[v] = x
		return x
	}
	// value not yet computed (e.g. defined in a skipped block): unconstrained
	x := &Val{T: vc.fresh("undef!"+v.Name(), vc.sortOf(v.Type())), Go: v.Type()}
	fr.vals[v] = x
	return x
}

func (fr *frame) term(st *State, v ssa.Value) *Term {
	x := fr.val(st, v)
	if x.T != nil {
		return x.T
	}
	if x.Addr != nil {
		// a first-class use of an interior pointer: outside the modelled subset
		fr.vc.note("interior pointer used as a value in " + shortFuncName(fr.fn))
		t := fr.vc.fresh("iptr", SInt)
		fr.vc.assume(st.guard, App(">", SInt, t, IntLit64(0)))
		x.T = t
		return t
	}
	if x.Tuple != nil {
		return IntLit64(0)
	}
	return fr.vc.fresh("noval", fr.vc.sortOf(v.Type()))
}

func (vc *VC) constTerm(c *ssa.Const) *Term {
	t := c.Type()
	if c.Value == nil {
		return vc.zero(t)
	}
	switch c.Value.Kind() {
	case constant.Bool:
		if constant.BoolVal(c.Value) {
			return TTrue
		}
		return TFalse
	case constant.String:
		return vc.strConst(constant.StringVal(c.Value))
	case constant.Int:
		if isFloat(t) {
			r, _ := new(big.Rat).SetString(c.Value.ExactString())
			return RealLitRat(r)
		}
		bi, _ := new(big.Int).SetString(c.Value.ExactString(), 10)
		return vc.intConst(bi, t)
	case constant.Float:
		if isInteger(t) {
			iv := constant.ToInt(c.Value)
			bi, _ := new(big.Int).SetString(iv.ExactString(), 10)
			return vc.intConst(bi, t)
		}
		r, ok := new(big.Rat).SetString(c.Value.ExactString())
		if !ok {
			f, _ := constant.Float64Val(c.Value)
			r = new(big.Rat).SetFloat64(f)
		}
		return RealLitRat(r)
	}
	return vc.fresh("const", vc.sortOf(t))
}

func (vc *VC) strConst(s string) *Term {
	if t, ok := vc.strConsts[s]; ok {
		return t
	}
	id := len(vc.strList) + 1
	vc.strList = append(vc.strList, s)
	t := IntLit64(int64(id))
	if s == "" {
		t = IntLit64(0)
	}
	vc.strConsts[s] = t
	vc.needStr()
	vc.facts = append(vc.facts, Eq(vc.strLen(t), vc.idx(int64(len(s)))))
	if len(s) <= 96 {
		for i := 0; i < len(s); i++ {
			vc.facts = append(vc.facts, Eq(vc.strAt(t, vc.idx(int64(i))), vc.intConst(big.NewInt(int64(s[i])), types.Typ[types.Uint8])))
		}
	}
	return t
}

func (vc *VC) needStr() {
	vc.declareFun("gstr.len", []*Sort{SInt}, vc.idxSort())
	vc.declareFun("gstr.at", []*Sort{SInt, vc.idxSort()}, vc.sortOf(types.Typ[types.Uint8]))
	if !vc.isBV() && !vc.declSeen["gstr!range"] {
		vc.declSeen["gstr!range"] = true
		s, k := Atom("s!sr", SInt), Atom("k!sr", SInt)
		at := App("gstr.at", SInt, s, k)
		vc.facts = append(vc.facts, Forall([]*Term{s, k}, And(App("<=", SBool, IntLit64(0), at), App("<=", SBool, at, IntLit64(255))), []*Term{at}))
		ln := App("gstr.len", SInt, s)
		vc.facts = append(vc.facts, Forall([]*Term{s}, App("<=", SBool, IntLit64(0), ln), []*Term{ln}))
	}
}
func (vc *VC) strLen(s *Term) *Term {
	vc.needStr()
	return App("gstr.len", vc.idxSort(), s)
}
func (vc *VC) strAt(s, i *Term) *Term {
	vc.needStr()
	return App("gstr.at", vc.sortOf(types.Typ[types.Uint8]), s, i)
}

// toIdx converts an integer term of Go type t to the index sort.
func (vc *VC) toIdx(v *Term, t types.Type) *Term {
	if !vc.isBV() {
		return v
	}
	return vc.convInt(v, t, types.Typ[types.Int])
}

// ---------------------------------------------------------------- type invariants of arbitrary values

func (vc *VC) typeInv(v *Term, t types.Type, st *State) *Term {
	switch u := t.Underlying().(type) {
	case *types.Basic:
		if isInteger(t) {
			return vc.rangeFact(v, t)
		}
		if isString(t) {
			return And(vc.iCmp(">=", vc.strLen(v), vc.idx(0), true), App(">=", SBool, v, IntLit64(0)))
		}
		_ = u
		return TTrue
	case *types.Slice:
		return vc.sliceWF(v, st)
	case *types.Pointer, *types.Map, *types.Chan, *types.Signature:
		return And(App(">=", SBool, v, IntLit64(0)), App("<=", SBool, v, vc.wm(st)))
	case *types.Interface:
		return And(App(">=", SBool, vc.ifTag(v), IntLit64(0)), Implies(Eq(vc.ifTag(v), IntLit64(0)), Eq(vc.ifVal(v), IntLit64(0))))
	case *types.Struct:
		var cs []*Term
		s := vc.sortOf(t)
		for i := 0; i < u.NumFields(); i++ {
			cs = append(cs, vc.typeInv(vc.structField(&Term{Op: v.Op, Args: v.Args, S: s}, i), u.Field(i).Type(), st))
		}
		return And(cs...)
	}
	return TTrue
}

func (vc *VC) sliceWF(s *Term, st *State) *Term {
	z := vc.idx(0)
	return And(
		App(">=", SBool, vc.slArr(s), IntLit64(0)),
		App("<=", SBool, vc.slArr(s), vc.wm(st)),
		vc.iCmp(">=", vc.slOff(s), z, true),
		vc.iCmp(">=", vc.slLen(s), z, true),
		vc.iCmp("<=", vc.slLen(s), vc.slCap(s), true),
		vc.iCmp("<=", vc.slCap(s), vc.maxLen(), true),
		vc.iCmp("<=", vc.slOff(s), vc.maxLen(), true),
		Implies(Eq(vc.slArr(s), IntLit64(0)), And(Eq(vc.slLen(s), z), Eq(vc.slCap(s), z), Eq(vc.slOff(s), z))),
	)
}

// maxLen bounds slice lengths/offsets so that index arithmetic cannot overflow in bv mode.
func (vc *VC) maxLen() *Term {
	if vc.isBV() {
		return BVLit(pow2(40), 64)
	}
	// int mode: lengths are unbounded mathematical integers (allocation is assumed to succeed)
	return IntLit(pow2(62))
}

// ---------------------------------------------------------------- loads and stores

func (fr *frame) addrOf(st *State, pv *Val, ptrT types.Type, pos token.Pos) *Addr {
	vc := fr.vc
	if pv.Addr != nil {
		if pv.Addr.Nil != nil {
			vc.oblige("safety.nil", st, Not(pv.Addr.Nil), pos, "nil pointer dereference")
		}
		return pv.Addr
	}
	pt, ok := ptrT.Underlying().(*types.Pointer)
	if !ok {
		vc.note("load/store through non-pointer")
		return nil
	}
	et := pt.Elem()
	vc.oblige("safety.nil", st, Not(Eq(pv.T, IntLit64(0))), pos, "nil pointer dereference")
	switch u := et.Underlying().(type) {
	case *types.Struct:
		return &Addr{Kind: AObjStruct, Ref: pv.T, Root: et, Typ: et}
	case *types.Array:
		key, _ := vc.elemKey(u.Elem())
		return &Addr{Kind: AObjArray, Key: key, Ref: pv.T, Root: et, Typ: et}
	default:
		key, _ := vc.cellKey(et)
		return &Addr{Kind: ACell, Key: key, Ref: pv.T, Root: et, Typ: et}
	}
}

const (
	AObjStruct AKind = 100
	AObjArray  AKind = 101
)

func (vc *VC) loadRoot(st *State, a *Addr) *Term {
	switch a.Kind {
	case ALocal:
		t := st.locals[a.Alloc]
		if t == nil {
			t = vc.zero(a.Root)
			st.locals[a.Alloc] = t
		}
		return t
	case AField, ACell:
		return Select(vc.heapGet(st, a.Key), a.Ref)
	case AElem:
		return Select(Select(vc.heapGet(st, a.Key), a.Ref), a.Idx)
	case AGlobal:
		return vc.heapGet(st, a.Key)
	case AObjArray:
		return Select(vc.heapGet(st, a.Key), a.Ref)
	case AObjStruct:
		stt := a.Root.Underlying().(*types.Struct)
		s := vc.sortOf(a.Root)
		fs := make([]*Term, stt.NumFields())
		for i := range fs {
			key, _ := vc.fieldKey(a.Root, i)
			fs[i] = Select(vc.heapGet(st, key), a.Ref)
		}
		return vc.mkStruct(s, fs)
	}
	panic("loadRoot")
}

func (vc *VC) storeRoot(st *State, a *Addr, v *Term) {
	switch a.Kind {
	case ALocal:
		st.locals[a.Alloc] = v
	case AField, ACell:
		st.heap[a.Key] = vc.define("h", Store(vc.heapGet(st, a.Key), a.Ref, v))
	case AElem:
		h := vc.heapGet(st, a.Key)
		st.heap[a.Key] = vc.define("h", Store(h, a.Ref, Store(Select(h, a.Ref), a.Idx, v)))
	case AGlobal:
		st.heap[a.Key] = v
	case AObjArray:
		st.heap[a.Key] = vc.define("h", Store(vc.heapGet(st, a.Key), a.Ref, v))
	case AObjStruct:
		stt := a.Root.Underlying().(*types.Struct)
		for i := 0; i < stt.NumFields(); i++ {
			key, _ := vc.fieldKey(a.Root, i)
			st.heap[key] = vc.define("h", Store(vc.heapGet(st, key), a.Ref, vc.structField(v, i)))
		}
	}
}

func (vc *VC) projGet(v *Term, path []Proj) *Term {
	for _, p := range path {
		if p.IsIdx {
			v = Select(v, p.Idx)
		} else {
			v = vc.structField(v, p.Field)
		}
	}
	return v
}

func (vc *VC) projSet(root *Term, path []Proj, nv *Term) *Term {
	if len(path) == 0 {
		return nv
	}
	p := path[0]
	if p.IsIdx {
		return Store(root, p.Idx, vc.projSet(Select(root, p.Idx), path[1:], nv))
	}
	return vc.structUpdate(root, p.Field, vc.projSet(vc.structField(root, p.Field), path[1:], nv))
}

func (vc *VC) load(st *State, a *Addr) *Term {
	return vc.projGet(vc.loadRoot(st, a), a.Path)
}

func (vc *VC) store(st *State, a *Addr, v *Term) {
	if len(a.Path) == 0 {
		vc.storeRoot(st, a, v)
		return
	}
	vc.storeRoot(st, a, vc.projSet(vc.loadRoot(st, a), a.Path, v))
}

// ---------------------------------------------------------------- blocks

func (fr *frame) execBlock(b *ssa.BasicBlock, st *State, ins map[*ssa.BasicBlock][]inEdge) {
	vc := fr.vc
	for _, in := range b.Instrs {
		if _, isPhi := in.(*ssa.Phi); isPhi {
			continue
		}
		if st.dead {
			return
		}
		switch in := in.(type) {
		case *ssa.If:
			c := fr.term(st, in.Cond)
			fr.edge(b, b.Succs[0], st, c, ins)
			fr.edge(b, b.Succs[1], st, Not(c), ins)
			return
		case *ssa.Jump:
			fr.edge(b, b.Succs[0], st, nil, ins)
			return
		case *ssa.Return:
			var rs []*Val
			for _, r := range in.Results {
				if rv := fr.val(st, r); !fr.top && rv.Addr != nil && rv.T == nil {
					// interior pointer returned by an inlined callee: keep the address symbolic
					rs = append(rs, &Val{Addr: rv.Addr, Go: r.Type()})
					continue
				}
				rs = append(rs, &Val{T: fr.term(st, r), Go: r.Type()})
			}
			fr.rets = append(fr.rets, &retInfo{st: st, results: rs, pos: in.Pos()})
			return
		case *ssa.Panic:
			vc.oblige("safety.panic", st, TFalse, in.Pos(), "explicit panic reachable")
			return
		default:
			fr.execInstr(st, in)
		}
	}
}

func (fr *frame) edge(from, to *ssa.BasicBlock, st *State, cond *Term, ins map[*ssa.BasicBlock][]inEdge) {
	vc := fr.vc
	ns := st.clone()
	if cond != nil {
		ns.guard = vc.define("g", And(st.guard, cond))
	}
	if isBackEdge(from, to) {
		if li := fr.loopOf[to]; li != nil {
			fr.closeLoop(li, ns, from)
		}
		return
	}
	ins[to] = append(ins[to], inEdge{ns, from})
}

// ---------------------------------------------------------------- instructions

func (fr *frame) execInstr(st *State, in ssa.Instruction) {
	vc := fr.vc
	switch in := in.(type) {
	case *ssa.DebugRef:
	case *ssa.Alloc:
		et := in.Type().(*types.Pointer).Elem()
		if fr.cells[in] {
			st.locals[in] = vc.zero(et)
			fr.vals[in] = &Val{Addr: &Addr{Kind: ALocal, Alloc: in, Root: et, Typ: et}, Go: in.Type()}
			return
		}
		r := vc.allocRef(st, in.Comment)
		fr.vals[in] = &Val{T: r, Go: in.Type()}
		vc.initObject(st, r, et)
	case *ssa.Store:
		av := fr.val(st, in.Addr)
		a := fr.addrOf(st, av, in.Addr.Type(), in.Pos())
		if a == nil {
			return
		}
		if sv := fr.val(st, in.Val); sv.Addr != nil && sv.T == nil && a.Kind == ALocal && len(a.Path) == 0 {
			// an interior pointer kept in a local variable stays symbolic
			if st.laddr == nil {
				st.laddr = map[*ssa.Alloc]*Addr{}
			}
			st.laddr[a.Alloc] = sv.Addr
			st.locals[a.Alloc] = IntLit64(1)
			return
		}
		if a.Kind == ALocal && st.laddr != nil {
			delete(st.laddr, a.Alloc)
		}
		vc.store(st, a, fr.term(st, in.Val))
	case *ssa.UnOp:
		fr.execUnOp(st, in)
	case *ssa.BinOp:
		fr.execBinOp(st, in)
	case *ssa.FieldAddr:
		xv := fr.val(st, in.X)
		pt := in.X.Type().Underlying().(*types.Pointer)
		stt := pt.Elem().Underlying().(*types.Struct)
		ft := stt.Field(in.Field).Type()
		if xv.Addr != nil {
			if xv.Addr.Nil != nil {
				vc.oblige("safety.nil", st, Not(xv.Addr.Nil), in.Pos(), "nil pointer dereference (field "+stt.Field(in.Field).Name()+")")
			}
			na := *xv.Addr
			na.Nil = nil
			na.Path = append(append([]Proj{}, xv.Addr.Path...), Proj{Field: in.Field})
			na.Typ = ft
			fr.vals[in] = &Val{Addr: &na, Go: in.Type()}
			return
		}
		vc.oblige("safety.nil", st, Not(Eq(xv.T, IntLit64(0))), in.Pos(), "nil pointer dereference (field "+stt.Field(in.Field).Name()+")")
		key, _ := vc.fieldKey(pt.Elem(), in.Field)
		fr.vals[in] = &Val{Addr: &Addr{Kind: AField, Key: key, Ref: xv.T, Root: ft, Typ: ft}, Go: in.Type()}
	case *ssa.IndexAddr:
		fr.execIndexAddr(st, in)
	case *ssa.Field:
		x := fr.term(st, in.X)
		fr.setT(in, vc.structField(x, in.Field))
	case *ssa.Index:
		x := fr.term(st, in.X)
		i := vc.toIdx(fr.term(st, in.Index), in.Index.Type())
		if at, ok := in.X.Type().Underlying().(*types.Array); ok {
			vc.oblige("safety.index", st, And(vc.iCmp(">=", i, vc.idx(0), true), vc.iCmp("<", i, vc.idx(at.Len()), true)), in.Pos(), "array index out of range")
			fr.setT(in, Select(x, i))
		} else if isString(in.X.Type()) {
			vc.oblige("safety.index", st, And(vc.iCmp(">=", i, vc.idx(0), true), vc.iCmp("<", i, vc.strLen(x), true)), in.Pos(), "string index out of range")
			fr.setT(in, vc.strAt(x, i))
		} else {
			vc.note("Index on unsupported operand type " + in.X.Type().String())
			fr.setT(in, vc.fresh("index", vc.sortOf(in.Type())))
		}
	case *ssa.Phi:
	case *ssa.Call:
		fr.execCall(st, in)
	case *ssa.ChangeType:
		fr.vals[in] = &Val{T: fr.term(st, in.X), Go: in.Type(), Fn: fr.val(st, in.X).Fn}
	case *ssa.ChangeInterface:
		fr.vals[in] = &Val{T: fr.term(st, in.X), Go: in.Type()}
	case *ssa.Convert:
		fr.execConvert(st, in)
	case *ssa.MakeInterface:
		x := fr.term(st, in.X)
		tag := IntLit64(int64(vc.eng.typeID(in.X.Type())))
		fr.setT(in, vc.mkIface(tag, vc.box(x, in.X.Type())))
	case *ssa.TypeAssert:
		fr.execTypeAssert(st, in)
	case *ssa.Extract:
		tv := fr.val(st, in.Tuple)
		if tv.Tuple != nil && in.Index < len(tv.Tuple) {
			fr.vals[in] = tv.Tuple[in.Index]
		} else {
			fr.vals[in] = &Val{T: vc.fresh("extract", vc.sortOf(in.Type())), Go: in.Type()}
		}
	case *ssa.Slice:
		fr.execSlice(st, in)
	case *ssa.MakeSlice:
		ln := vc.toIdx(fr.term(st, in.Len), in.Len.Type())
		cp := vc.toIdx(fr.term(st, in.Cap), in.Cap.Type())
		mk := And(vc.iCmp(">=", ln, vc.idx(0), true), vc.iCmp("<=", ln, cp, true))
		if vc.isBV() {
			mk = And(mk, vc.iCmp("<=", cp, vc.maxLen(), true))
		} else {
			vc.assumed["allocation of any non-negative size is assumed to succeed (int mode)"] = true
			vc.assume(st.guard, Implies(mk, vc.iCmp("<=", cp, vc.maxLen(), true)))
		}
		vc.oblige("safety.make", st, mk, in.Pos(), "makeslice: len/cap out of range")
		r := vc.allocRef(st, "make")
		et := in.Type().Underlying().(*types.Slice).Elem()
		key, hs := vc.elemKey(et)
		st.heap[key] = vc.define("h", Store(vc.heapGet(st, key), r, vc.zeroOfSort(hs.Elem)))
		fr.setT(in, vc.mkSlice(r, vc.idx(0), ln, cp))
	case *ssa.MakeMap:
		r := vc.allocRef(st, "map")
		fr.vals[in] = &Val{T: r, Go: in.Type()}
	case *ssa.MapUpdate:
		m := fr.term(st, in.Map)
		vc.oblige("safety.nil", st, Not(Eq(m, IntLit64(0))), in.Pos(), "assignment to entry in nil map")
	case *ssa.Lookup:
		fr.execLookup(st, in)
	case *ssa.Range:
		fr.vals[in] = &Val{T: fr.term(st, in.X), Go: in.X.Type()}
		if isString(in.X.Type()) {
			key := fr.iterKey(in)
			st.heap[key] = vc.idx(0)
		}
	case *ssa.Next:
		fr.execNext(st, in)
	case *ssa.MakeClosure:
		fn := in.Fn.(*ssa.Function)
		fr.vals[in] = &Val{Fn: fn, T: vc.fresh("closure", SInt), Go: in.Type()}
		vc.note("closure created in " + shortFuncName(fr.fn))
	case *ssa.RunDefers:
		// handled only when the function has no Defer (checked in eligibility)
	case *ssa.Defer:
		vc.note("defer in " + shortFuncName(fr.fn))
	case *ssa.Go, *ssa.Send, *ssa.Select, *ssa.MakeChan:
		vc.note("concurrency primitive in " + shortFuncName(fr.fn))
	default:
		vc.note(fmt.Sprintf("unsupported instruction %T in %s", in, shortFuncName(fr.fn)))
		if v, ok := in.(ssa.Value); ok {
			fr.vals[v] = &Val{T: vc.fresh("unsup", vc.sortOf(v.Type())), Go: v.Type()}
		}
	}
}

func (vc *VC) initObject(st *State, r *Term, et types.Type) {
	switch u := et.Underlying().(type) {
	case *types.Struct:
		for i := 0; i < u.NumFields(); i++ {
			key, hs := vc.fieldKey(et, i)
			st.heap[key] = vc.define("h", Store(vc.heapGet(st, key), r, vc.zeroOfSort(hs.Elem)))
		}
	case *types.Array:
		key, hs := vc.elemKey(u.Elem())
		st.heap[key] = vc.define("h", Store(vc.heapGet(st, key), r, vc.zeroOfSort(hs.Elem)))
	default:
		key, hs := vc.cellKey(et)
		st.heap[key] = vc.define("h", Store(vc.heapGet(st, key), r, vc.zeroOfSort(hs.Elem)))
	}
}

func (fr *frame) execIndexAddr(st *State, in *ssa.IndexAddr) {
	vc := fr.vc
	xv := fr.val(st, in.X)
	i := vc.toIdx(fr.term(st, in.Index), in.Index.Type())
	switch xt := in.X.Type().Underlying().(type) {
	case *types.Slice:
		s := xv.T
		vc.oblige("safety.index", st, And(vc.iCmp(">=", i, vc.idx(0), true), vc.iCmp("<", i, vc.slLen(s), true)), in.Pos(), "slice index out of range")
		key, _ := vc.elemKey(xt.Elem())
		fr.vals[in] = &Val{Addr: &Addr{Kind: AElem, Key: key, Ref: vc.slArr(s), Idx: vc.define("ix", vc.iAdd(vc.slOff(s), i)), Root: xt.Elem(), Typ: xt.Elem()}, Go: in.Type()}
	case *types.Pointer:
		at := xt.Elem().Underlying().(*types.Array)
		vc.oblige("safety.index", st, And(vc.iCmp(">=", i, vc.idx(0), true), vc.iCmp("<", i, vc.idx(at.Len()), true)), in.Pos(), "array index out of range")
		if xv.Addr != nil {
			na := *xv.Addr
			na.Path = append(append([]Proj{}, xv.Addr.Path...), Proj{IsIdx: true, Idx: i})
			na.Typ = at.Elem()
			fr.vals[in] = &Val{Addr: &na, Go: in.Type()}
			return
		}
		vc.oblige("safety.nil", st, Not(Eq(xv.T, IntLit64(0))), in.Pos(), "nil array pointer")
		key, _ := vc.elemKey(at.Elem())
		fr.vals[in] = &Val{Addr: &Addr{Kind: AElem, Key: key, Ref: xv.T, Idx: i, Root: at.Elem(), Typ: at.Elem()}, Go: in.Type()}
	default:
		vc.note("IndexAddr on unsupported type")
		fr.vals[in] = &Val{T: vc.fresh("ixaddr", SInt), Go: in.Type()}
	}
}

func (fr *frame) execUnOp(st *State, in *ssa.UnOp) {
	vc := fr.vc
	switch in.Op {
	case token.MUL:
		pv := fr.val(st, in.X)
		a := fr.addrOf(st, pv, in.X.Type(), in.Pos())
		if a == nil {
			fr.vals[in] = &Val{T: vc.fresh("load", vc.sortOf(in.Type())), Go: in.Type()}
			return
		}
		if a.Kind == ALocal && len(a.Path) == 0 && st.laddr != nil {
			if la, ok := st.laddr[a.Alloc]; ok {
				fr.vals[in] = &Val{Addr: la, Go: in.Type()}
				return
			}
		}
		v := vc.load(st, a)
		fr.setT(in, v)
		// values read from memory satisfy their type invariants
		if a.Kind != ALocal {
			vc.assume(st.guard, vc.typeInv(fr.vals[in].T, in.Type(), st))
		}
	case token.NOT:
		fr.setT(in, Not(fr.term(st, in.X)))
	case token.SUB:
		x := fr.term(st, in.X)
		if isFloat(in.Type()) {
			fr.setT(in, App("-", SReal, x))
		} else {
			fr.setT(in, vc.wrap(vc.iNeg(x), in.Type()))
		}
	case token.XOR:
		x := fr.term(st, in.X)
		if vc.isBV() {
			fr.setT(in, App("bvnot", x.S, x))
		} else {
			w, signed, _ := intInfo(in.Type())
			if signed {
				fr.setT(in, vc.iSub(vc.iNeg(x), IntLit64(1)))
			} else {
				fr.setT(in, vc.bnotTerm(x, w))
			}
		}
	default:
		vc.note("unsupported unary op " + in.Op.String())
		fr.vals[in] = &Val{T: vc.fresh("unop", vc.sortOf(in.Type())), Go: in.Type()}
	}
}

func (fr *frame) execBinOp(st *State, in *ssa.BinOp) {
	vc := fr.vc
	xt := in.X.Type()
	x := fr.term(st, in.X)
	y := fr.term(st, in.Y)
	switch {
	case isInteger(xt) && (in.Op == token.SHL || in.Op == token.SHR):
		fr.setT(in, vc.shift(st, in.Op, x, y, xt, in.Y.Type(), in.Pos()))
	case isInteger(xt):
		_, signed, _ := intInfo(xt)
		var r *Term
		switch in.Op {
		case token.ADD:
			r = vc.wrap(vc.iAdd(x, y), xt)
			vc.overflowCheck(st, r, xt, in.Pos())
		case token.SUB:
			if x.Op == "bshl" && len(x.Args) == 3 && x.Args[1].Op == "1" && y.Op == "1" && len(y.Args) == 0 {
				// (1 << s) - 1 on an unsigned word: the low mask (exact when 0 <= s < width, as the shift obligation demands)
				r = vc.lowMask(st, x.Args[0], x.Args[2])
			} else {
				r = vc.wrap(vc.iSub(x, y), xt)
			}
			vc.overflowCheck(st, r, xt, in.Pos())
		case token.MUL:
			r = vc.wrap(vc.iMul(x, y), xt)
			vc.overflowCheck(st, r, xt, in.Pos())
		case token.QUO:
			vc.oblige("safety.div", st, Not(Eq(y, vc.intConst(big.NewInt(0), xt))), in.Pos(), "integer divide by zero")
			r = vc.iQuo(x, y, signed)
		case token.REM:
			vc.oblige("safety.div", st, Not(Eq(y, vc.intConst(big.NewInt(0), xt))), in.Pos(), "integer divide by zero")
			r = vc.iRem(x, y, signed)
		case token.AND:
			r = vc.bitop("and", x, y, xt)
		case token.OR:
			r = vc.bitop("or", x, y, xt)
		case token.XOR:
			r = vc.bitop("xor", x, y, xt)
		case token.AND_NOT:
			r = vc.bitop("andnot", x, y, xt)
		case token.EQL:
			r = Eq(x, y)
			vc.nonZeroWitness(x, xt)
			vc.nonZeroWitness(y, xt)
		case token.NEQ:
			r = Not(Eq(x, y))
			vc.nonZeroWitness(x, xt)
			vc.nonZeroWitness(y, xt)
		case token.LSS:
			r = vc.iCmp("<", x, y, signed)
		case token.LEQ:
			r = vc.iCmp("<=", x, y, signed)
		case token.GTR:
			r = vc.iCmp(">", x, y, signed)
		case token.GEQ:
			r = vc.iCmp(">=", x, y, signed)
		}
		if r == nil {
			vc.note("unsupported integer op " + in.Op.String())
			r = vc.fresh("binop", vc.sortOf(in.Type()))
		}
		fr.setT(in, r)
	case isFloat(xt):
		var r *Term
		switch in.Op {
		case token.ADD:
			r = App("+", SReal, x, y)
		case token.SUB:
			r = App("-", SReal, x, y)
		case token.MUL:
			r = vc.realMulDiv("*", x, y)
		case token.QUO:
			r = vc.realMulDiv("/", x, y)
		case token.EQL:
			r = Eq(x, y)
		case token.NEQ:
			r = Not(Eq(x, y))
		case token.LSS:
			r = App("<", SBool, x, y)
		case token.LEQ:
			r = App("<=", SBool, x, y)
		case token.GTR:
			r = App(">", SBool, x, y)
		case token.GEQ:
			r = App(">=", SBool, x, y)
		}
		vc.assumed["float64 arithmetic treated as real arithmetic"] = true
		fr.setT(in, r)
	case isString(xt):
		switch in.Op {
		case token.ADD:
			r := vc.fresh("concat", SInt)
			vc.assume(st.guard, And(App(">=", SBool, r, IntLit64(0)), Eq(vc.strLen(r), vc.iAdd(vc.strLen(x), vc.strLen(y)))))
			k := Atom("k!c", vc.idxSort())
			lx := vc.strLen(x)
			vc.assume(st.guard, Forall([]*Term{k}, And(
				Implies(And(vc.iCmp(">=", k, vc.idx(0), true), vc.iCmp("<", k, lx, true)), Eq(vc.strAt(r, k), vc.strAt(x, k))),
				Implies(And(vc.iCmp(">=", k, lx, true), vc.iCmp("<", k, vc.strLen(r), true)), Eq(vc.strAt(r, k), vc.strAt(y, vc.iSub(k, lx))))),
				[]*Term{vc.strAt(r, k)}))
			fr.setT(in, r)
		case token.EQL:
			fr.setT(in, vc.strEq(x, y))
		case token.NEQ:
			fr.setT(in, Not(vc.strEq(x, y)))
		default:
			fr.setT(in, vc.fresh("strcmp", SBool))
		}
	case isBool(xt):
		switch in.Op {
		case token.EQL:
			fr.setT(in, Eq(x, y))
		case token.NEQ:
			fr.setT(in, Not(Eq(x, y)))
		default:
			vc.note("unsupported bool op")
			fr.setT(in, vc.fresh("boolop", SBool))
		}
	default:
		// pointers, interfaces, maps, chans, funcs, slices vs nil, structs, arrays
		var eq *Term
		xv, yv := fr.val(st, in.X), fr.val(st, in.Y)
		switch {
		case xv.Addr != nil && xv.T == nil || yv.Addr != nil && yv.T == nil:
			// interior pointer compared (with nil): nil only where a merged return said so
			eq = TFalse
			if xv.Addr != nil && xv.Addr.Nil != nil {
				eq = xv.Addr.Nil
			} else if yv.Addr != nil && yv.Addr.Nil != nil {
				eq = yv.Addr.Nil
			}
		case x.S.K == KIface:
			eq = And(Eq(vc.ifTag(x), vc.ifTag(y)), Eq(vc.ifVal(x), vc.ifVal(y)))
			if c, ok := in.Y.(*ssa.Const); ok && c.Value == nil {
				eq = Eq(vc.ifTag(x), IntLit64(0))
			} else if c, ok := in.X.(*ssa.Const); ok && c.Value == nil {
				eq = Eq(vc.ifTag(y), IntLit64(0))
			}
		case x.S.K == KSlice:
			if c, ok := in.Y.(*ssa.Const); ok && c.Value == nil {
				eq = Eq(vc.slArr(x), IntLit64(0))
			} else {
				eq = Eq(vc.slArr(y), IntLit64(0))
			}
		default:
			eq = Eq(x, y)
		}
		if in.Op == token.NEQ {
			eq = Not(eq)
		}
		fr.setT(in, eq)
	}
}

func (vc *VC) strEq(x, y *Term) *Term {
	// strings are canonical ids: equal ids <=> equal contents; distinct literals are distinct ids
	return Eq(x, y)
}

func (vc *VC) overflowCheck(st *State, r *Term, t types.Type, pos token.Pos) {
	if !vc.overflow || vc.isBV() {
		return
	}
	_, signed, _ := intInfo(t)
	if !signed {
		return
	}
	vc.oblige("safety.overflow", st, vc.rangeFact(r, t), pos, "signed integer overflow")
}

// bitop in int mode uses exact encodings for constant masks and uninterpreted functions otherwise.
func (vc *VC) bitop(op string, x, y *Term, t types.Type) *Term {
	if vc.isBV() {
		switch op {
		case "and":
			return App("bvand", x.S, x, y)
		case "or":
			return App("bvor", x.S, x, y)
		case "xor":
			return App("bvxor", x.S, x, y)
		case "andnot":
			return App("bvand", x.S, x, App("bvnot", x.S, y))
		}
	}
	x, y = foldInt(x), foldInt(y)
	xv, xok := intLitVal(x)
	yv, yok := intLitVal(y)
	if w, uns := isUnsignedType(t); uns && !(xok && yok) {
		vc.bitTheory()
		if xok {
			vc.constBits(xv, w)
		}
		if yok {
			vc.constBits(yv, w)
		}
		// x & 1 is the low bit
		if op == "and" && yok && yv.Cmp(bigOne) == 0 {
			if x.Op == "bshr" && len(x.Args) == 2 {
				return Ite(vc.wbit(x.Args[0], x.Args[1]), IntLit64(1), IntLit64(0))
			}
			return Ite(vc.wbit(x, IntLit64(0)), IntLit64(1), IntLit64(0))
		}
		name := map[string]string{"and": "band", "or": "bor", "xor": "bxor", "andnot": "bandnot"}[op]
		return App(name, SInt, x, y)
	}
	if xok && yok {
		switch op {
		case "and":
			return IntLit(new(big.Int).And(xv, yv))
		case "or":
			return IntLit(new(big.Int).Or(xv, yv))
		case "xor":
			return IntLit(new(big.Int).Xor(xv, yv))
		case "andnot":
			return IntLit(new(big.Int).AndNot(xv, yv))
		}
	}
	if op == "and" {
		if xok && !yok {
			x, y, xv, yv, xok, yok = y, x, yv, xv, yok, xok
		}
		if yok && yv.Sign() >= 0 {
			// mask 2^k-1
			m := new(big.Int).Add(yv, big.NewInt(1))
			if m.BitLen() > 0 && new(big.Int).And(m, yv).Sign() == 0 {
				return App("mod", SInt, x, IntLit(m))
			}
			// single bit 2^k
			if yv.Sign() > 0 && new(big.Int).And(yv, new(big.Int).Sub(yv, big.NewInt(1))).Sign() == 0 {
				return Ite(Eq(App("mod", SInt, App("div", SInt, x, IntLit(yv)), IntLit64(2)), IntLit64(1)), IntLit(yv), IntLit64(0))
			}
			// contiguous mask (2^a-1)<<b
			tz := int(yv.TrailingZeroBits())
			sh := new(big.Int).Rsh(yv, uint(tz))
			m2 := new(big.Int).Add(sh, big.NewInt(1))
			if new(big.Int).And(m2, sh).Sign() == 0 {
				return App("*", SInt, App("mod", SInt, App("div", SInt, x, IntLit(pow2(tz))), IntLit(m2)), IntLit(pow2(tz)))
			}
		}
	}
	vc.assumed["bit operation on non-constant operands abstracted (int mode)"] = true
	f := vc.declareFun("bit."+op, []*Sort{SInt, SInt}, SInt)
	r := App(f, SInt, x, y)
	return r
}

func (vc *VC) shift(st *State, op token.Token, x, y *Term, xt, yt types.Type, pos token.Pos) *Term {
	if !vc.isBV() {
		x, y = foldInt(x), foldInt(y)
	}
	xw, xs, _ := intInfo(xt)
	yw, ys, _ := intInfo(yt)
	if ys {
		vc.oblige("safety.shift", st, vc.iCmp(">=", y, vc.intConst(big.NewInt(0), yt), true), pos, "negative shift amount")
	}
	if vc.isBV() {
		// bring count to width of x, saturating
		var c *Term
		if yw == xw {
			c = y
		} else if yw < xw {
			c = App(fmt.Sprintf("(_ zero_extend %d)", xw-yw), SBV(xw), y)
		} else {
			big_ := App("bvuge", SBool, y, BVLit(big.NewInt(int64(xw)), yw))
			c = Ite(big_, BVLit(big.NewInt(int64(xw)), xw), App(fmt.Sprintf("(_ extract %d 0)", xw-1), SBV(xw), y))
		}
		if op == token.SHL {
			return App("bvshl", x.S, x, c)
		}
		if xs {
			return App("bvashr", x.S, x, c)
		}
		return App("bvlshr", x.S, x, c)
	}
	if !xs {
		if _, lit := intLitVal(y); !lit {
			vc.bitTheory()
			if xv, ok := intLitVal(x); ok {
				vc.constBits(xv, xw)
			}
			if op == token.SHL {
				return App("bshl", SInt, IntLit64(int64(xw)), x, y)
			}
			return App("bshr", SInt, x, y)
		}
	}
	if yv, ok := intLitVal(y); ok && yv.IsInt64() && yv.Int64() >= 0 && yv.Int64() < 256 {
		k := int(yv.Int64())
		if op == token.SHL {
			r := vc.iMul(x, IntLit(pow2(k)))
			if !xs {
				return vc.wrap(r, xt)
			}
			return r
		}
		if k >= xw && !xs {
			return IntLit64(0)
		}
		return App("div", SInt, x, IntLit(pow2(k)))
	}
	if xv, ok := intLitVal(x); ok && op == token.SHL {
		// c << y : c * pow2(y)
		p := vc.pow2Term(y)
		r := vc.iMul(IntLit(xv), p)
		if !xs {
			return vc.wrap(r, xt)
		}
		return r
	}
	p := vc.pow2Term(y)
	if op == token.SHL {
		r := App("*", SInt, x, p)
		if !xs {
			return vc.wrap(r, xt)
		}
		return r
	}
	return App("div", SInt, x, p)
}

// pow2Term is 2^y for 0 <= y < 64 as an ite chain is too large; use an uninterpreted function with defining facts.
func (vc *VC) pow2Term(y *Term) *Term {
	f := vc.declareFun("pow2", []*Sort{SInt}, SInt)
	if !vc.declSeen["pow2!axioms"] {
		vc.declSeen["pow2!axioms"] = true
		for k := 0; k <= 64; k++ {
			vc.facts = append(vc.facts, Eq(App(f, SInt, IntLit64(int64(k))), IntLit(pow2(k))))
		}
	}
	return App(f, SInt, y)
}

func (fr *frame) execConvert(st *State, in *ssa.Convert) {
	vc := fr.vc
	from, to := in.X.Type(), in.Type()
	x := fr.term(st, in.X)
	switch {
	case isInteger(from) && isInteger(to):
		fr.setT(in, vc.convInt(x, from, to))
	case isInteger(from) && isFloat(to):
		if vc.isBV() {
			vc.note("int->float conversion in bv mode")
			fr.setT(in, vc.fresh("i2f", SReal))
		} else {
			fr.setT(in, App("to_real", SReal, x))
		}
	case isFloat(from) && isInteger(to):
		if vc.isBV() {
			vc.note("float->int conversion in bv mode")
			fr.setT(in, vc.fresh("f2i", vc.sortOf(to)))
		} else {
			fr.setT(in, vc.truncReal(x))
		}
	case isFloat(from) && isFloat(to):
		fr.setT(in, x)
	case isString(to) && isInteger(from):
		r := vc.fresh("runestr", SInt)
		vc.assume(st.guard, And(App(">=", SBool, r, IntLit64(0)), vc.iCmp(">=", vc.strLen(r), vc.idx(1), true), vc.iCmp("<=", vc.strLen(r), vc.idx(4), true),
			Implies(And(vc.iCmp(">=", x, vc.intConst(big.NewInt(0), from), true), vc.iCmp("<", x, vc.intConst(big.NewInt(128), from), true)),
				And(Eq(vc.strLen(r), vc.idx(1)), Eq(vc.strAt(r, vc.idx(0)), vc.convInt(x, from, types.Typ[types.Uint8]))))))
		fr.setT(in, r)
	case isString(to):
		// []byte / []rune -> string
		r := vc.fresh("bytes2str", SInt)
		if sl, ok := from.Underlying().(*types.Slice); ok {
			if w, _, _ := intInfo(sl.Elem()); w == 8 {
				key, _ := vc.elemKey(sl.Elem())
				arr := Select(vc.heapGet(st, key), vc.slArr(x))
				k := Atom("k!b", vc.idxSort())
				vc.assume(st.guard, And(App(">=", SBool, r, IntLit64(0)), Eq(vc.strLen(r), vc.slLen(x)),
					Forall([]*Term{k}, Implies(And(vc.iCmp(">=", k, vc.idx(0), true), vc.iCmp("<", k, vc.slLen(x), true)),
						Eq(vc.strAt(r, k), Select(arr, vc.iAdd(vc.slOff(x), k)))), []*Term{vc.strAt(r, k)})))
			} else {
				vc.assume(st.guard, And(App(">=", SBool, r, IntLit64(0)), vc.iCmp(">=", vc.strLen(r), vc.slLen(x), true)))
			}
		}
		fr.setT(in, r)
	case isString(from):
		// string -> []byte / []rune
		sl, ok := to.Underlying().(*types.Slice)
		if !ok {
			fr.setT(in, vc.fresh("conv", vc.sortOf(to)))
			return
		}
		ref := vc.allocRef(st, "str2slice")
		key, hs := vc.elemKey(sl.Elem())
		arr := vc.fresh("arr", hs.Elem)
		st.heap[key] = vc.define("h", Store(vc.heapGet(st, key), ref, arr))
		ln := vc.fresh("len", vc.idxSort())
		if w, _, _ := intInfo(sl.Elem()); w == 8 {
			vc.assume(st.guard, Eq(ln, vc.strLen(x)))
			k := Atom("k!s", vc.idxSort())
			vc.assume(st.guard, Forall([]*Term{k}, Implies(And(vc.iCmp(">=", k, vc.idx(0), true), vc.iCmp("<", k, ln, true)),
				Eq(Select(arr, k), vc.strAt(x, k))), []*Term{Select(arr, k)}))
		} else {
			// runes: between ceil(len/4) and len; ASCII bytes map one to one
			vc.assume(st.guard, And(vc.iCmp(">=", ln, vc.idx(0), true), vc.iCmp("<=", ln, vc.strLen(x), true),
				Implies(vc.iCmp(">", vc.strLen(x), vc.idx(0), true), vc.iCmp(">", ln, vc.idx(0), true))))
			vc.assumed["[]rune(string) modelled by length bounds only"] = true
		}
		fr.setT(in, vc.mkSlice(ref, vc.idx(0), ln, ln))
	default:
		// pointer/unsafe conversions
		if sameSort(vc.sortOf(from), vc.sortOf(to)) {
			fr.setT(in, x)
		} else {
			vc.note("unsupported conversion " + from.String() + " -> " + to.String())
			fr.setT(in, vc.fresh("conv", vc.sortOf(to)))
		}
	}
}

// realMulDiv: a real product or quotient.  With "opt realarith=uf" a product of two non-literal reals and a quotient by a
// non-literal real are applications of the uninterpreted functions rmul / rdiv: every model of real arithmetic is a model of the
// uninterpreted reading, so what is proved this way holds for the real operations; the solvers stay in linear arithmetic.
func (vc *VC) realMulDiv(op string, x, y *Term) *Term {
	if vc.con == nil || vc.con.Opts["realarith"] != "uf" {
		return App(op, SReal, x, y)
	}
	if op == "*" && (isRealLiteral(x) || isRealLiteral(y)) {
		return App(op, SReal, x, y)
	}
	if op == "/" && isRealLiteral(y) {
		return App(op, SReal, x, y)
	}
	name := "rmul"
	if op == "/" {
		name = "rdiv"
	}
	f := vc.declareFun(name, []*Sort{SReal, SReal}, SReal)
	vc.assumed["opt realarith=uf: products and quotients of symbolic reals are uninterpreted functions (sound abstraction)"] = true
	return App(f, SReal, x, y)
}

// isRealLiteral: a numeral, a negated numeral or a quotient of numerals
func isRealLiteral(t *Term) bool {
	if len(t.Args) == 0 {
		if t.Op == "" {
			return false
		}
		c := t.Op[0]
		return c >= '0' && c <= '9'
	}
	if (t.Op == "-" && len(t.Args) == 1) || (t.Op == "/" && len(t.Args) == 2) {
		for _, a := range t.Args {
			if !isRealLiteral(a) {
				return false
			}
		}
		return true
	}
	return false
}

func (vc *VC) truncReal(x *Term) *Term {
	vc.assumed["float64 arithmetic treated as real arithmetic"] = true
	return Ite(App(">=", SBool, x, Atom("0.0", SReal)), App("to_int", SInt, x), App("-", SInt, App("to_int", SInt, App("-", SReal, x))))
}

// box encodes a value as the Int payload of an interface value.
func (vc *VC) box(x *Term, t types.Type) *Term {
	s := vc.sortOf(t)
	if s.K == KInt {
		return x
	}
	name := "box!" + s.Key()
	f := vc.declareFun(name, []*Sort{s}, SInt)
	u := vc.declareFun("un"+name, []*Sort{SInt}, s)
	if !vc.declSeen[name+"!ax"] {
		vc.declSeen[name+"!ax"] = true
		b := Atom("b!x", s)
		vc.facts = append(vc.facts, Forall([]*Term{b}, Eq(App(u, s, App(f, SInt, b)), b), []*Term{App(f, SInt, b)}))
	}
	return App(f, SInt, x)
}

func (vc *VC) unbox(v *Term, t types.Type) *Term {
	s := vc.sortOf(t)
	if s.K == KInt {
		return v
	}
	name := "box!" + s.Key()
	vc.box(vc.zeroOfSort(s), t) // ensure declared
	return App(smtName("un"+name), s, v)
}

// implTags returns the condition "dynamic type tag of x satisfies type T".
func (vc *VC) tagMatches(tag *Term, T types.Type) *Term {
	if iface, ok := T.Underlying().(*types.Interface); ok {
		var cs []*Term
		for id := 1; id < len(vc.eng.typeByID); id++ {
			ct := vc.eng.typeByID[id]
			if types.Implements(ct, iface) {
				cs = append(cs, Eq(tag, IntLit64(int64(id))))
			}
		}
		if iface.NumMethods() == 0 {
			return Not(Eq(tag, IntLit64(0)))
		}
		// unknown external dynamic types (tag >= extBase) may implement non-module interfaces
		if !vc.ifaceIsModuleOnly(iface) {
			cs = append(cs, App(">=", SBool, tag, IntLit64(extTagBase)))
		}
		return Or(cs...)
	}
	return Eq(tag, IntLit64(int64(vc.eng.typeID(T))))
}

const extTagBase = 1000000

// ifaceIsModuleOnly: interface has a method that only module types can have (unexported or mentions module types)
func (vc *VC) ifaceIsModuleOnly(iface *types.Interface) bool {
	for i := 0; i < iface.NumMethods(); i++ {
		m := iface.Method(i)
		if !m.Exported() && vc.eng.inModule(m.Pkg()) {
			return true
		}
		if strings.Contains(m.Type().String(), modulePath) {
			return true
		}
	}
	// marker-method interfaces of the module, e.g. ReaderException with readerException()
	return false
}

func (fr *frame) execTypeAssert(st *State, in *ssa.TypeAssert) {
	vc := fr.vc
	x := fr.term(st, in.X)
	ok := vc.tagMatches(vc.ifTag(x), in.AssertedType)
	var v *Term
	if _, isI := in.AssertedType.Underlying().(*types.Interface); isI {
		v = x
	} else {
		v = vc.unbox(vc.ifVal(x), in.AssertedType)
	}
	if in.CommaOk {
		okc := vc.define(fr.regName(in)+"!ok", ok)
		zero := vc.zero(in.AssertedType)
		fr.vals[in] = &Val{Tuple: []*Val{{T: vc.define(fr.regName(in)+"!v", Ite(okc, v, zero)), Go: in.AssertedType}, {T: okc, Go: types.Typ[types.Bool]}}}
		return
	}
	vc.oblige("safety.typeassert", st, ok, in.Pos(), "type assertion may fail: "+in.AssertedType.String())
	fr.setT(in, v)
}

func (fr *frame) execSlice(st *State, in *ssa.Slice) {
	vc := fr.vc
	xv := fr.val(st, in.X)
	z := vc.idx(0)
	get := func(v ssa.Value, def *Term) *Term {
		if v == nil {
			return def
		}
		return vc.toIdx(fr.term(st, v), v.Type())
	}
	switch xt := in.X.Type().Underlying().(type) {
	case *types.Slice:
		s := xv.T
		lo := get(in.Low, z)
		hi := get(in.High, vc.slLen(s))
		mx := get(in.Max, vc.slCap(s))
		vc.oblige("safety.slice", st, And(vc.iCmp("<=", z, lo, true), vc.iCmp("<=", lo, hi, true), vc.iCmp("<=", hi, mx, true), vc.iCmp("<=", mx, vc.slCap(s), true)), in.Pos(), "slice bounds out of range")
		fr.setT(in, vc.mkSlice(vc.slArr(s), vc.iAdd(vc.slOff(s), lo), vc.iSub(hi, lo), vc.iSub(mx, lo)))
	case *types.Basic: // string
		s := fr.term(st, in.X)
		lo := get(in.Low, z)
		hi := get(in.High, vc.strLen(s))
		vc.oblige("safety.slice", st, And(vc.iCmp("<=", z, lo, true), vc.iCmp("<=", lo, hi, true), vc.iCmp("<=", hi, vc.strLen(s), true)), in.Pos(), "string slice bounds out of range")
		fr.setT(in, vc.substr(st, s, lo, hi))
	case *types.Pointer:
		at := xt.Elem().Underlying().(*types.Array)
		n := vc.idx(at.Len())
		lo := get(in.Low, z)
		hi := get(in.High, n)
		mx := get(in.Max, n)
		vc.oblige("safety.slice", st, And(vc.iCmp("<=", z, lo, true), vc.iCmp("<=", lo, hi, true), vc.iCmp("<=", hi, mx, true), vc.iCmp("<=", mx, n, true)), in.Pos(), "slice bounds out of range")
		ref := xv.T
		if ref == nil {
			vc.note("slicing a non-escaping local array")
			ref = vc.fresh("arrref", SInt)
		}
		fr.setT(in, vc.mkSlice(ref, lo, vc.iSub(hi, lo), vc.iSub(mx, lo)))
	default:
		vc.note("unsupported slice operand")
		fr.setT(in, vc.fresh("slice", SSlice))
	}
}

func (fr *frame) execLookup(st *State, in *ssa.Lookup) {
	vc := fr.vc
	if isString(in.X.Type()) {
		s := fr.term(st, in.X)
		i := vc.toIdx(fr.term(st, in.Index), in.Index.Type())
		vc.oblige("safety.index", st, And(vc.iCmp(">=", i, vc.idx(0), true), vc.iCmp("<", i, vc.strLen(s), true)), in.Pos(), "string index out of range")
		fr.setT(in, vc.strAt(s, i))
		return
	}
	// map lookup: arbitrary value of the element type (maps are not modelled)
	mt := in.X.Type().Underlying().(*types.Map)
	v := vc.fresh("mapval", vc.sortOf(mt.Elem()))
	vc.assume(st.guard, vc.typeInv(v, mt.Elem(), st))
	vc.assumed["map contents not modelled (lookups return arbitrary values of the element type)"] = true
	if in.CommaOk {
		ok := vc.fresh("mapok", SBool)
		// a nil map has no entries
		m := fr.term(st, in.X)
		vc.assume(st.guard, Implies(Eq(m, IntLit64(0)), Not(ok)))
		fr.vals[in] = &Val{Tuple: []*Val{{T: Ite(ok, v, vc.zero(mt.Elem())), Go: mt.Elem()}, {T: ok, Go: types.Typ[types.Bool]}}}
		return
	}
	fr.vals[in] = &Val{T: v, Go: mt.Elem()}
}

func (fr *frame) execNext(st *State, in *ssa.Next) {
	vc := fr.vc
	it := fr.val(st, in.Iter)
	ok := vc.fresh("next!ok", SBool)
	if in.IsString {
		// faithful abstraction of UTF-8 iteration: the hidden position advances by 1 for an ASCII byte (the rune is
		// that byte) and by 1..4 otherwise (the rune is some value >= 0x80); iteration ends when the position reaches len
		s := it.T
		key := fr.iterKey(in.Iter)
		pos := vc.heapGet(st, key)
		okT := vc.define(fr.regName(in)+"!ok", vc.iCmp("<", pos, vc.strLen(s), true))
		r := vc.fresh("next!r", vc.sortOf(types.Typ[types.Int32]))
		w := vc.fresh("next!w", vc.idxSort())
		b := vc.strAt(s, pos)
		asc := vc.iCmp("<", b, vc.intConst(big.NewInt(128), types.Typ[types.Uint8]), false)
		rr := vc.convInt(b, types.Typ[types.Uint8], types.Typ[types.Int32])
		vc.assume(st.guard, And(vc.iCmp(">=", pos, vc.idx(0), true), vc.iCmp("<=", pos, vc.strLen(s), true)))
		vc.assume(st.guard, Implies(okT, And(
			Implies(asc, And(Eq(r, rr), Eq(w, vc.idx(1)))),
			Implies(Not(asc), And(vc.iCmp(">=", r, vc.intConst(big.NewInt(128), types.Typ[types.Int32]), true), vc.iCmp("<=", r, vc.intConst(big.NewInt(0x10FFFF), types.Typ[types.Int32]), true),
				vc.iCmp(">=", w, vc.idx(1), true), vc.iCmp("<=", w, vc.idx(4), true), vc.iCmp("<=", vc.iAdd(pos, w), vc.strLen(s), true))))))
		st.heap[key] = vc.define("itpos", Ite(okT, vc.iAdd(pos, w), pos))
		vc.assumed["range over string: UTF-8 decoding abstracted (ASCII bytes exact, other runes arbitrary >= 0x80 with width 1..4)"] = true
		fr.vals[in] = &Val{Tuple: []*Val{{T: okT, Go: types.Typ[types.Bool]}, {T: pos, Go: types.Typ[types.Int]}, {T: r, Go: types.Typ[types.Int32]}}}
		return
	}
	mt, _ := it.Go.Underlying().(*types.Map)
	var kv, vv *Val
	if mt != nil {
		k := vc.fresh("next!k", vc.sortOf(mt.Key()))
		v := vc.fresh("next!v", vc.sortOf(mt.Elem()))
		vc.assume(st.guard, And(vc.typeInv(k, mt.Key(), st), vc.typeInv(v, mt.Elem(), st)))
		kv, vv = &Val{T: k, Go: mt.Key()}, &Val{T: v, Go: mt.Elem()}
	} else {
		kv, vv = &Val{T: IntLit64(0)}, &Val{T: IntLit64(0)}
	}
	vc.assumed["range over map modelled as arbitrary entries (termination not modelled)"] = true
	fr.vals[in] = &Val{Tuple: []*Val{{T: ok, Go: types.Typ[types.Bool]}, kv, vv}}
}

// bnotTerm: complement of an unsigned w-bit value in int mode, tied to both arithmetic and the bit theory.
func (vc *VC) bnotTerm(x *Term, w int) *Term {
	vc.bitTheory()
	r := App("bnot", SInt, IntLit64(int64(w)), x)
	key := "bnot:" + r.String()
	if !vc.declSeen[key] && !mentionsBound(x) {
		vc.declSeen[key] = true
		vc.facts = append(vc.facts, Eq(r, vc.iSub(IntLit(new(big.Int).Sub(pow2(w), big.NewInt(1))), x)))
	}
	return r
}

// lowMask: (1 << s) - 1 for an unsigned word of width w; for s >= w Go gives 2^w-1 (all ones), modelled by the ite.
func (vc *VC) lowMask(st *State, w, s *Term) *Term {
	vc.bitTheory()
	wv, _ := intLitVal(w)
	all := IntLit(new(big.Int).Sub(pow2(int(wv.Int64())), big.NewInt(1)))
	vc.constBits(new(big.Int).Sub(pow2(int(wv.Int64())), big.NewInt(1)), int(wv.Int64()))
	return Ite(App("<", SBool, s, w), App("lowmask", SInt, s), all)
}

// substr: the substring s[lo:hi] as a term (strings are canonical ids, so the same arguments give the same string)
func (vc *VC) substr(st *State, s, lo, hi *Term) *Term {
	vc.needStr()
	f := vc.declareFun("gstr.sub", []*Sort{SInt, vc.idxSort(), vc.idxSort()}, SInt)
	r := App(f, SInt, s, lo, hi)
	key := "substr:" + r.String()
	if vc.declSeen[key] || mentionsBound(r) {
		return r
	}
	vc.declSeen[key] = true
	z := vc.idx(0)
	k := Atom("k!ss", vc.idxSort())
	n := vc.iSub(hi, lo)
	inRange := And(vc.iCmp("<=", z, lo, true), vc.iCmp("<=", lo, hi, true), vc.iCmp("<=", hi, vc.strLen(s), true))
	vc.facts = append(vc.facts, Implies(inRange, And(App(">=", SBool, r, IntLit64(0)), Eq(vc.strLen(r), n),
		Forall([]*Term{k}, Implies(And(vc.iCmp(">=", k, z, true), vc.iCmp("<", k, n, true)),
			Eq(vc.strAt(r, k), vc.strAt(s, vc.iAdd(lo, k)))), []*Term{vc.strAt(r, k)}))))
	return r
}

// iterKey names the hidden position of a string range iterator (kept as a heap component so that it is
// merged at joins and havocked at loop heads like any other state).
func (fr *frame) iterKey(v ssa.Value) string {
	key := "IT!" + fr.inst + shortFuncName(fr.fn) + "!" + v.Name()
	fr.vc.heapSorts[key] = fr.vc.idxSort()
	return key
}
