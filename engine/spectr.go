package main

import (
	"fmt"
	"go/constant"
	"go/token"
	"go/types"
	"math"
	"math/big"
	"strings"

	"golang.org/x/tools/go/ssa"
)

// SVal is a typed value of the specification language.
type SVal struct {
	T    *Term
	Go   types.Type // nil for untyped constants
	CI   *big.Int   // untyped integer constant
	CR   *big.Rat   // untyped float constant
	Nil  bool
	Pkg  string // identifier naming a package (pkg path)
	Str  *string
	Addr *Addr // pointer value known only as a symbolic interior address (&s[i], &p.f)
}

type specErr string

func sfail(f string, a ...interface{}) { panic(specErr(fmt.Sprintf(f, a...))) }

type SEnv struct {
	vc          *VC
	cur         *State
	old         *State
	vars        map[string]*SVal
	oldVars     map[string]*SVal
	local       func(name string, st *State) *SVal
	pkgPath     string
	depth       int
	unfoldDepth int
	nq          *int
	proving     bool
	// binvs: inside a quantifier, type invariants of heap reads that mention a bound variable (see heapReadInv)
	binvs *[]*Term
}

func (vc *VC) newEnv(cur, old *State, pkgPath string) *SEnv {
	n := 0
	return &SEnv{vc: vc, cur: cur, old: old, vars: map[string]*SVal{}, oldVars: map[string]*SVal{}, pkgPath: pkgPath, nq: &n}
}

func (env *SEnv) child() *SEnv {
	n := *env
	n.vars = map[string]*SVal{}
	for k, v := range env.vars {
		n.vars[k] = v
	}
	return &n
}

// trBool translates a clause to a Bool term; errors are returned, not panicked.
func (env *SEnv) trBool(e *SExpr) (t *Term, err error) {
	defer func() {
		if r := recover(); r != nil {
			if se, ok := r.(specErr); ok {
				err = fmt.Errorf("%s", string(se))
				return
			}
			panic(r)
		}
	}()
	v := env.tr(e)
	if v.T == nil || v.T.S.K != KBool {
		return nil, fmt.Errorf("expression %s is not boolean", e)
	}
	return v.T, nil
}

func (env *SEnv) trAny(e *SExpr) (v *SVal, err error) {
	defer func() {
		if r := recover(); r != nil {
			if se, ok := r.(specErr); ok {
				err = fmt.Errorf("%s", string(se))
				return
			}
			panic(r)
		}
	}()
	v = env.tr(e)
	v = env.materialize(v, nil)
	return v, nil
}

var basicTypeNames = map[string]types.Type{
	"int": types.Typ[types.Int], "int8": types.Typ[types.Int8], "int16": types.Typ[types.Int16], "int32": types.Typ[types.Int32],
	"int64": types.Typ[types.Int64], "uint": types.Typ[types.Uint], "uint8": types.Typ[types.Uint8], "byte": types.Typ[types.Uint8],
	"uint16": types.Typ[types.Uint16], "uint32": types.Typ[types.Uint32], "uint64": types.Typ[types.Uint64], "rune": types.Typ[types.Int32],
	"float64": types.Typ[types.Float64], "real": types.Typ[types.Float64], "bool": types.Typ[types.Bool], "string": types.Typ[types.String],
	"uintptr": types.Typ[types.Uintptr],
}

// materialize turns an untyped constant into a term of type want (or a default type).
func (env *SEnv) materialize(v *SVal, want types.Type) *SVal {
	vc := env.vc
	if v.T != nil && v.Go != nil {
		return v
	}
	if v.Nil {
		if want == nil {
			sfail("untyped nil without context")
		}
		return &SVal{T: vc.zero(want), Go: want}
	}
	if v.CI != nil {
		if want == nil {
			want = types.Typ[types.Int]
		}
		if isFloat(want) {
			return &SVal{T: RealLitRat(new(big.Rat).SetInt(v.CI)), Go: want}
		}
		if !isInteger(want) {
			sfail("integer constant used as %s", want)
		}
		return &SVal{T: vc.intConst(v.CI, want), Go: want}
	}
	if v.CR != nil {
		if want == nil {
			want = types.Typ[types.Float64]
		}
		if isInteger(want) {
			if v.CR.IsInt() {
				return &SVal{T: vc.intConst(v.CR.Num(), want), Go: want}
			}
			sfail("non-integer constant used as %s", want)
		}
		return &SVal{T: RealLitRat(v.CR), Go: want}
	}
	if v.Str != nil {
		return &SVal{T: vc.strConst(*v.Str), Go: types.Typ[types.String]}
	}
	sfail("value has no term")
	return nil
}

func (v *SVal) untyped() bool { return v.Go == nil && (v.CI != nil || v.CR != nil || v.Nil) }

func (env *SEnv) tr(e *SExpr) *SVal {
	vc := env.vc
	switch e.K {
	case ENum:
		if strings.ContainsAny(e.Op, ".eE") && !strings.HasPrefix(e.Op, "0x") && !strings.HasPrefix(e.Op, "0X") {
			r, ok := new(big.Rat).SetString(e.Op)
			if !ok {
				sfail("bad number %s", e.Op)
			}
			return &SVal{CR: r}
		}
		i, ok := new(big.Int).SetString(e.Op, 0)
		if !ok {
			sfail("bad number %s", e.Op)
		}
		return &SVal{CI: i}
	case EChar:
		return &SVal{CI: big.NewInt(int64(e.Op[0]))}
	case EStr:
		s := e.Op
		return &SVal{Str: &s}
	case EIdent:
		return env.ident(e.Op)
	case EUnary:
		x := env.tr(e.X)
		switch e.Op {
		case "!":
			x = env.materialize(x, nil)
			if x.T.S.K != KBool {
				sfail("! on non-bool %s", e.X)
			}
			return &SVal{T: Not(x.T), Go: types.Typ[types.Bool]}
		case "-":
			if x.CI != nil {
				return &SVal{CI: new(big.Int).Neg(x.CI)}
			}
			if x.CR != nil {
				return &SVal{CR: new(big.Rat).Neg(x.CR)}
			}
			if isFloat(x.Go) {
				return &SVal{T: App("-", SReal, x.T), Go: x.Go}
			}
			return &SVal{T: vc.wrap(vc.iNeg(x.T), x.Go), Go: x.Go}
		case "^":
			if x.CI != nil {
				return &SVal{CI: new(big.Int).Not(x.CI)}
			}
			if vc.isBV() {
				return &SVal{T: App("bvnot", x.T.S, x.T), Go: x.Go}
			}
			w, signed, _ := intInfo(x.Go)
			if signed {
				return &SVal{T: vc.iSub(vc.iNeg(x.T), IntLit64(1)), Go: x.Go}
			}
			return &SVal{T: vc.bnotTerm(x.T, w), Go: x.Go}
		}
		sfail("bad unary %s", e.Op)
	case EBinary:
		return env.binary(e)
	case ECond:
		c := env.materialize(env.tr(e.X), nil)
		if cv, ok := groundBool(c.T); ok {
			// the condition is decided: only the chosen branch is translated (this is what lets recursive
			// spec functions be evaluated on literal arguments)
			if cv {
				return env.tr(e.Y)
			}
			return env.tr(e.Z)
		}
		a, b := env.tr(e.Y), env.tr(e.Z)
		a, b = env.unify(a, b)
		return &SVal{T: Ite(c.T, a.T, b.T), Go: a.Go}
	case EQuant:
		ne := env.child()
		if ne.binvs == nil {
			ne.binvs = &[]*Term{}
		}
		var bound []*Term
		var ranges []*Term
		for _, qv := range e.Vars {
			t, ok := basicTypeNames[qv.Type]
			if !ok {
				sfail("quantified variable %s: unsupported type %s", qv.Name, qv.Type)
			}
			*env.nq++
			a := Atom(smtName(fmt.Sprintf("%s!q%d", qv.Name, *env.nq)), vc.sortOf(t))
			bound = append(bound, a)
			ne.vars[qv.Name] = &SVal{T: a, Go: t}
			if qv.Type != "int" || vc.isBV() {
				ranges = append(ranges, vc.rangeFact(a, t))
			}
		}
		body := ne.materialize(ne.tr(e.X), nil)
		if body.T.S.K != KBool {
			sfail("quantifier body is not boolean")
		}
		if e.Op == "forall" {
			return &SVal{T: Forall(bound, Implies(And(ranges...), body.T)), Go: types.Typ[types.Bool]}
		}
		return &SVal{T: Exists(bound, And(And(ranges...), body.T)), Go: types.Typ[types.Bool]}
	case EIndex:
		x := env.materialize(env.tr(e.X), nil)
		i := env.tr(e.Y)
		i = env.materialize(i, types.Typ[types.Int])
		ix := vc.toIdx(i.T, i.Go)
		switch xt := x.Go.Underlying().(type) {
		case *types.Slice:
			key, _ := vc.elemKey(xt.Elem())
			r := &SVal{T: env.ground(Select(Select(vc.heapGet(env.cur, key), vc.slArr(x.T)), vc.iAdd(vc.slOff(x.T), foldInt(ix)))), Go: xt.Elem()}
			env.heapReadInv(r)
			return r
		case *types.Array:
			return &SVal{T: Select(x.T, ix), Go: xt.Elem()}
		case *types.Pointer:
			if at, ok := xt.Elem().Underlying().(*types.Array); ok {
				key, _ := vc.elemKey(at.Elem())
				return &SVal{T: Select(Select(vc.heapGet(env.cur, key), x.T), ix), Go: at.Elem()}
			}
		case *types.Basic:
			if isString(x.Go) {
				return &SVal{T: vc.strAt(x.T, ix), Go: types.Typ[types.Uint8]}
			}
		}
		sfail("cannot index %s (type %v)", e.X, x.Go)
	case ESelect:
		return env.selectExpr(e)
	case ECall:
		return env.call(e)
	}
	sfail("cannot translate %s", e)
	return nil
}

func (env *SEnv) ident(name string) *SVal {
	vc := env.vc
	switch name {
	case "true":
		return &SVal{T: TTrue, Go: types.Typ[types.Bool]}
	case "false":
		return &SVal{T: TFalse, Go: types.Typ[types.Bool]}
	case "nil":
		return &SVal{Nil: true}
	}
	if v, ok := env.vars[name]; ok {
		return v
	}
	if env.local != nil {
		if v := env.local(name, env.cur); v != nil {
			return v
		}
	}
	// package-level objects
	if pkg := vc.eng.PPkgs[env.pkgPath]; pkg != nil {
		if obj := pkg.Types.Scope().Lookup(name); obj != nil {
			return env.pkgObject(obj)
		}
		// imported package name
		for _, imp := range pkg.Types.Imports() {
			if imp.Name() == name {
				return &SVal{Pkg: imp.Path()}
			}
		}
	}
	if pp := vc.eng.nearestPkg(env.pkgPath, name); pp != "" {
		return &SVal{Pkg: pp}
	}
	sfail("unknown identifier %q", name)
	return nil
}

func (env *SEnv) pkgObject(obj types.Object) *SVal {
	vc := env.vc
	switch o := obj.(type) {
	case *types.Const:
		switch o.Val().Kind() {
		case constant.Int:
			bi, _ := new(big.Int).SetString(o.Val().ExactString(), 10)
			if b, ok := o.Type().Underlying().(*types.Basic); ok && b.Info()&types.IsUntyped != 0 {
				return &SVal{CI: bi}
			}
			return &SVal{T: vc.intConst(bi, o.Type()), Go: o.Type()}
		case constant.Float:
			// a named floating-point constant denotes the float64 value the program computes with (0.38 is not 19/50)
			r, _ := new(big.Rat).SetString(o.Val().ExactString())
			if f, _ := constant.Float64Val(o.Val()); !math.IsInf(f, 0) && !math.IsNaN(f) {
				r = new(big.Rat).SetFloat64(f)
			}
			return &SVal{CR: r}
		case constant.Bool:
			if constant.BoolVal(o.Val()) {
				return &SVal{T: TTrue, Go: types.Typ[types.Bool]}
			}
			return &SVal{T: TFalse, Go: types.Typ[types.Bool]}
		case constant.String:
			s := constant.StringVal(o.Val())
			return &SVal{Str: &s}
		}
	case *types.Var:
		spkg := vc.eng.SPkgs[o.Pkg().Path()]
		if spkg != nil {
			if g, ok := spkg.Members[o.Name()].(*ssa.Global); ok {
				key, _ := vc.globalKey(g)
				return &SVal{T: env.ground(vc.heapGet(env.cur, key)), Go: o.Type()}
			}
		}
	}
	sfail("unsupported package-level object %s", obj.Name())
	return nil
}

func (env *SEnv) selectExpr(e *SExpr) *SVal {
	vc := env.vc
	x := env.tr(e.X)
	if x.Pkg != "" {
		pkg := vc.eng.PPkgs[x.Pkg]
		if pkg == nil {
			sfail("package %s not loaded", x.Pkg)
		}
		obj := pkg.Types.Scope().Lookup(e.Op)
		if obj == nil {
			sfail("%s not found in package %s", e.Op, x.Pkg)
		}
		return env.pkgObject(obj)
	}
	if x.Addr != nil && x.T == nil {
		p, ok := x.Go.Underlying().(*types.Pointer)
		if !ok {
			sfail("selector on interior address of non-pointer type")
		}
		st, ok := p.Elem().Underlying().(*types.Struct)
		if !ok {
			sfail("selector on pointer to non-struct %v", x.Go)
		}
		for i := 0; i < st.NumFields(); i++ {
			if st.Field(i).Name() == e.Op {
				na := *x.Addr
				na.Nil = nil
				na.Path = append(append([]Proj{}, x.Addr.Path...), Proj{Field: i})
				na.Typ = st.Field(i).Type()
				return &SVal{T: vc.load(env.cur, &na), Go: st.Field(i).Type()}
			}
		}
		sfail("no field %s in %v", e.Op, p.Elem())
	}
	x = env.materialize(x, nil)
	t := x.Go
	if p, ok := t.Underlying().(*types.Pointer); ok {
		st, ok := p.Elem().Underlying().(*types.Struct)
		if !ok {
			sfail("selector on pointer to non-struct %v", t)
		}
		for i := 0; i < st.NumFields(); i++ {
			if st.Field(i).Name() == e.Op {
				key, _ := vc.fieldKey(p.Elem(), i)
				r := &SVal{T: env.ground(Select(vc.heapGet(env.cur, key), x.T)), Go: st.Field(i).Type()}
				env.heapReadInv(r)
				return r
			}
		}
		// embedded struct fields (one level)
		for i := 0; i < st.NumFields(); i++ {
			if st.Field(i).Embedded() {
				if est, ok := st.Field(i).Type().Underlying().(*types.Struct); ok {
					for j := 0; j < est.NumFields(); j++ {
						if est.Field(j).Name() == e.Op {
							key, _ := vc.fieldKey(p.Elem(), i)
							outer := Select(vc.heapGet(env.cur, key), x.T)
							return &SVal{T: vc.structField(outer, j), Go: est.Field(j).Type()}
						}
					}
				}
			}
		}
		sfail("no field %s in %v", e.Op, p.Elem())
	}
	if st, ok := t.Underlying().(*types.Struct); ok {
		for i := 0; i < st.NumFields(); i++ {
			if st.Field(i).Name() == e.Op {
				return &SVal{T: vc.structField(x.T, i), Go: st.Field(i).Type()}
			}
		}
		sfail("no field %s in %v", e.Op, t)
	}
	sfail("selector .%s on %v", e.Op, t)
	return nil
}

// unify brings two operands to a common type.
func (env *SEnv) unify(a, b *SVal) (*SVal, *SVal) {
	vc := env.vc
	if a.untyped() && b.untyped() || (a.Str != nil && b.Str != nil) {
		return env.materialize(a, nil), env.materialize(b, nil)
	}
	if a.untyped() || (a.T == nil && a.Str != nil) {
		b = env.materialize(b, nil)
		return env.materialize(a, b.Go), b
	}
	if b.untyped() || (b.T == nil && b.Str != nil) {
		a = env.materialize(a, nil)
		return a, env.materialize(b, a.Go)
	}
	if isInteger(a.Go) && isInteger(b.Go) && vc.isBV() {
		aw, _, _ := intInfo(a.Go)
		bw, _, _ := intInfo(b.Go)
		if aw < bw {
			return &SVal{T: vc.convInt(a.T, a.Go, b.Go), Go: b.Go}, b
		}
		if bw < aw {
			return a, &SVal{T: vc.convInt(b.T, b.Go, a.Go), Go: a.Go}
		}
	}
	if isInteger(a.Go) && isFloat(b.Go) && !vc.isBV() {
		return &SVal{T: App("to_real", SReal, a.T), Go: b.Go}, b
	}
	if isFloat(a.Go) && isInteger(b.Go) && !vc.isBV() {
		return a, &SVal{T: App("to_real", SReal, b.T), Go: a.Go}
	}
	return a, b
}

func (env *SEnv) binary(e *SExpr) *SVal {
	vc := env.vc
	tb := types.Typ[types.Bool]
	switch e.Op {
	case "&&", "||", "==>", "<==>":
		n0 := 0
		if env.binvs != nil {
			n0 = len(*env.binvs)
		}
		a := env.materialize(env.tr(e.X), nil)
		if env.binvs != nil && e.Op == "==>" {
			// invariants of reads in the antecedent are not guarded by anything: drop them
			*env.binvs = (*env.binvs)[:n0]
		}
		b := env.materialize(env.tr(e.Y), nil)
		if env.binvs != nil && e.Op == "==>" && b.T.S.K == KBool {
			// heap reads under the guard that mention a bound variable: their type invariants (pointers and slices refer to
			// allocated objects, integers are in range) hold for every guarded instance. They strengthen an assumed
			// formula and weaken a goal; both are sound because the invariants hold in every well-typed heap.
			invs := append([]*Term{}, (*env.binvs)[n0:]...)
			*env.binvs = (*env.binvs)[:n0]
			if len(invs) > 0 {
				if env.proving {
					b = &SVal{T: Implies(And(invs...), b.T), Go: b.Go}
				} else {
					b = &SVal{T: And(append(invs, b.T)...), Go: b.Go}
				}
			}
		}
		if a.T.S.K != KBool || b.T.S.K != KBool {
			sfail("logical operator %s on non-bool operands in %s", e.Op, e)
		}
		switch e.Op {
		case "&&":
			return &SVal{T: And(a.T, b.T), Go: tb}
		case "||":
			return &SVal{T: Or(a.T, b.T), Go: tb}
		case "==>":
			return &SVal{T: Implies(a.T, b.T), Go: tb}
		default:
			return &SVal{T: Eq(a.T, b.T), Go: tb}
		}
	}
	a, b := env.tr(e.X), env.tr(e.Y)
	if (e.Op == "==" || e.Op == "!=") && (a.Addr != nil && a.T == nil && b.Nil || b.Addr != nil && b.T == nil && a.Nil) {
		ad := a.Addr
		if ad == nil {
			ad = b.Addr
		}
		eq := TFalse
		if ad.Nil != nil {
			eq = ad.Nil
		}
		if e.Op == "!=" {
			eq = Not(eq)
		}
		return &SVal{T: eq, Go: tb}
	}
	// constant folding on untyped ints
	if a.CI != nil && b.CI != nil {
		r := new(big.Int)
		switch e.Op {
		case "+":
			return &SVal{CI: r.Add(a.CI, b.CI)}
		case "-":
			return &SVal{CI: r.Sub(a.CI, b.CI)}
		case "*":
			return &SVal{CI: r.Mul(a.CI, b.CI)}
		case "/":
			if b.CI.Sign() == 0 {
				sfail("constant division by zero")
			}
			return &SVal{CI: r.Quo(a.CI, b.CI)}
		case "%":
			if b.CI.Sign() == 0 {
				sfail("constant division by zero")
			}
			return &SVal{CI: r.Rem(a.CI, b.CI)}
		case "<<":
			return &SVal{CI: r.Lsh(a.CI, uint(b.CI.Int64()))}
		case ">>":
			return &SVal{CI: r.Rsh(a.CI, uint(b.CI.Int64()))}
		case "&":
			return &SVal{CI: r.And(a.CI, b.CI)}
		case "|":
			return &SVal{CI: r.Or(a.CI, b.CI)}
		case "^":
			return &SVal{CI: r.Xor(a.CI, b.CI)}
		}
	}
	if e.Op == "<<" || e.Op == ">>" {
		a = env.materialize(a, types.Typ[types.Int])
		b = env.materialize(b, types.Typ[types.Uint])
		op := token.SHL
		if e.Op == ">>" {
			op = token.SHR
		}
		// no obligations inside specifications: use a scratch state guard
		scratch := &State{guard: TFalse, locals: env.cur.locals, heap: env.cur.heap, base: env.cur.base}
		n := len(vc.obls)
		nf := len(vc.facts)
		r := vc.shift(scratch, op, a.T, b.T, a.Go, b.Go, token.NoPos)
		vc.obls = vc.obls[:n]
		// keep facts added for pow2 axioms but drop the guarded assumption
		vc.facts = filterFactsFrom(vc.facts, nf)
		return &SVal{T: r, Go: a.Go}
	}
	a, b = env.unify(a, b)
	if a.Go == nil || b.Go == nil {
		sfail("cannot type %s", e)
	}
	isCmp := map[string]bool{"==": true, "!=": true, "<": true, "<=": true, ">": true, ">=": true}[e.Op]
	switch {
	case isFloat(a.Go) && isFloat(b.Go):
		vc.assumed["float64 arithmetic treated as real arithmetic"] = true
		switch e.Op {
		case "+", "-":
			return &SVal{T: App(e.Op, SReal, a.T, b.T), Go: a.Go}
		case "*", "/":
			return &SVal{T: vc.realMulDiv(e.Op, a.T, b.T), Go: a.Go}
		case "==":
			return &SVal{T: Eq(a.T, b.T), Go: tb}
		case "!=":
			return &SVal{T: Not(Eq(a.T, b.T)), Go: tb}
		case "<", "<=", ">", ">=":
			return &SVal{T: App(e.Op, SBool, a.T, b.T), Go: tb}
		}
	case isInteger(a.Go) && isInteger(b.Go):
		if !sameSort(a.T.S, b.T.S) {
			sfail("operands of %s have different integer widths (%v vs %v) in %s", e.Op, a.Go, b.Go, e)
		}
		_, signed, _ := intInfo(a.Go)
		switch e.Op {
		case "+":
			return &SVal{T: vc.wrap(vc.iAdd(a.T, b.T), a.Go), Go: a.Go}
		case "-":
			return &SVal{T: vc.wrap(vc.iSub(a.T, b.T), a.Go), Go: a.Go}
		case "*":
			return &SVal{T: vc.wrap(vc.iMul(a.T, b.T), a.Go), Go: a.Go}
		case "/":
			return &SVal{T: vc.iQuo(a.T, b.T, signed), Go: a.Go}
		case "%":
			return &SVal{T: vc.iRem(a.T, b.T, signed), Go: a.Go}
		case "&":
			return &SVal{T: vc.bitop("and", a.T, b.T, a.Go), Go: a.Go}
		case "|":
			return &SVal{T: vc.bitop("or", a.T, b.T, a.Go), Go: a.Go}
		case "^":
			return &SVal{T: vc.bitop("xor", a.T, b.T, a.Go), Go: a.Go}
		case "&^":
			return &SVal{T: vc.bitop("andnot", a.T, b.T, a.Go), Go: a.Go}
		case "==":
			return &SVal{T: Eq(a.T, b.T), Go: tb}
		case "!=":
			return &SVal{T: Not(Eq(a.T, b.T)), Go: tb}
		case "<", "<=", ">", ">=":
			return &SVal{T: vc.iCmp(e.Op, a.T, b.T, signed), Go: tb}
		}
	case isCmp && (e.Op == "==" || e.Op == "!="):
		var eq *Term
		switch {
		case a.T.S.K == KIface && isNilSVal(e.Y):
			eq = Eq(vc.ifTag(a.T), IntLit64(0))
		case b.T.S.K == KIface && isNilSVal(e.X):
			eq = Eq(vc.ifTag(b.T), IntLit64(0))
		case a.T.S.K == KSlice && isNilSVal(e.Y):
			eq = Eq(vc.slArr(a.T), IntLit64(0))
		case b.T.S.K == KSlice && isNilSVal(e.X):
			eq = Eq(vc.slArr(b.T), IntLit64(0))
		default:
			if !sameSort(a.T.S, b.T.S) {
				sfail("comparison of different sorts in %s", e)
			}
			eq = Eq(a.T, b.T)
		}
		if e.Op == "!=" {
			eq = Not(eq)
		}
		return &SVal{T: eq, Go: tb}
	}
	sfail("operator %s not applicable to %v, %v in %s", e.Op, a.Go, b.Go, e)
	return nil
}

func isNilSVal(e *SExpr) bool { return e.K == EIdent && e.Op == "nil" }

func filterFactsFrom(facts []*Term, from int) []*Term {
	out := facts[:from]
	for _, f := range facts[from:] {
		if f.Op == "=>" && len(f.Args) == 2 && f.Args[0].IsFalse() {
			continue
		}
		out = append(out, f)
	}
	return out
}

// ---------------------------------------------------------------- calls in specifications

func (env *SEnv) call(e *SExpr) *SVal {
	vc := env.vc
	var name, qual string
	var recv *SExpr
	switch e.X.K {
	case EIdent:
		name = e.X.Op
	case ESelect:
		name = e.X.Op
		// package-qualified or method sugar
		if e.X.X.K == EIdent {
			if _, isVar := env.vars[e.X.X.Op]; !isVar {
				if env.local == nil || env.local(e.X.X.Op, env.cur) == nil {
					if len(vc.eng.ByName[e.X.X.Op]) > 0 {
						qual = e.X.X.Op
					}
				}
			}
		}
		if qual == "" {
			recv = e.X.X
		}
	default:
		sfail("bad call %s", e)
	}
	args := e.Args
	if recv != nil {
		args = append([]*SExpr{recv}, args...)
	}
	if qual == "" && recv == nil {
		if v := env.builtin(name, args, e); v != nil {
			return v
		}
	}
	sf := vc.eng.lookupSpecFunc(env.pkgPath, qual, name)
	if sf == nil {
		sfail("unknown spec function %q", name)
	}
	if len(args) != len(sf.Params) {
		sfail("spec function %s expects %d arguments, got %d", name, len(sf.Params), len(args))
	}
	avs := make([]*SVal, len(args))
	hasAddr := false
	for i, a := range args {
		v := env.tr(a)
		if v.Addr != nil && v.T == nil {
			avs[i] = &SVal{Addr: v.Addr, Go: sf.Params[i].Type}
			hasAddr = true
			continue
		}
		v = env.materialize(v, sf.Params[i].Type)
		v = env.coerce(v, sf.Params[i].Type, fmt.Sprintf("argument %d of %s", i+1, name))
		avs[i] = v
	}
	if hasAddr && (sf.Body == nil || sf.Recursive) {
		sfail("interior pointer passed to the abstract/recursive spec function %s", name)
	}
	allLit := sf.Body != nil && !hasAddr
	for i, a := range avs {
		if a.T == nil {
			continue
		}
		a.T = foldInt(a.T)
		avs[i] = a
		if _, ok := intLitVal(a.T); !ok {
			allLit = false
		}
	}
	if sf.Opaque && !hasAddr {
		revealed := false
		if vc.con != nil {
			for _, n := range strings.Split(vc.con.Opts["reveal"], ",") {
				if strings.TrimSpace(n) == sf.Name {
					revealed = true
				}
			}
		}
		if !revealed {
			return env.callUFOpaque(sf, avs)
		}
	}
	if sf.Body == nil || (sf.Recursive && !(allLit && env.depth < 4000)) {
		return env.callUF(sf, avs)
	}
	if env.depth > 4000 && !sf.Recursive {
		sfail("spec function expansion too deep at %s", name)
	}
	ne := env.child()
	ne.vars = map[string]*SVal{}
	for i, p := range sf.Params {
		ne.vars[p.Name] = avs[i]
	}
	ne.local = nil
	ne.pkgPath = sf.PkgPath
	ne.depth = env.depth + 1
	r := ne.materialize(ne.tr(sf.Body), sf.Result)
	return env.coerce(r, sf.Result, "result of "+name)
}

func (env *SEnv) coerce(v *SVal, want types.Type, what string) *SVal {
	vc := env.vc
	ws := vc.sortOf(want)
	if sameSort(v.T.S, ws) {
		return &SVal{T: v.T, Go: want}
	}
	if isInteger(v.Go) && isInteger(want) {
		return &SVal{T: vc.convInt(v.T, v.Go, want), Go: want}
	}
	if isInteger(v.Go) && isFloat(want) && !vc.isBV() {
		return &SVal{T: App("to_real", SReal, v.T), Go: want}
	}
	sfail("%s: have %v, want %v", what, v.Go, want)
	return nil
}

func (env *SEnv) builtin(name string, args []*SExpr, e *SExpr) *SVal {
	vc := env.vc
	tb := types.Typ[types.Bool]
	need := func(n int) {
		if len(args) != n {
			sfail("%s expects %d argument(s)", name, n)
		}
	}
	if t, ok := basicTypeNames[name]; ok && name != "string" && name != "bool" {
		need(1)
		x := env.tr(args[0])
		if x.untyped() {
			return env.materialize(x, t)
		}
		switch {
		case isInteger(x.Go) && isInteger(t):
			return &SVal{T: vc.convInt(x.T, x.Go, t), Go: t}
		case isInteger(x.Go) && isFloat(t):
			if vc.isBV() {
				sfail("int->real conversion in bv mode")
			}
			return &SVal{T: App("to_real", SReal, x.T), Go: t}
		case isFloat(x.Go) && isFloat(t):
			return &SVal{T: x.T, Go: t}
		case isFloat(x.Go) && isInteger(t):
			return &SVal{T: vc.truncReal(x.T), Go: t}
		}
		sfail("bad conversion %s(%v)", name, x.Go)
	}
	switch name {
	case "hint":
		// hint(lemma(args)): when the enclosing formula is being proved, the (separately proved) lemma instance;
		// when it is being assumed, simply true. Logically neutral given the lemma.
		need(1)
		if !env.proving {
			return &SVal{T: TTrue, Go: tb}
		}
		a := args[0]
		if a.K != ECall || a.X.K != EIdent {
			sfail("hint needs lemma(args)")
		}
		lem := vc.eng.findLemma(env.pkgPath, a.X.Op)
		if lem == nil {
			sfail("unknown lemma %s", a.X.Op)
		}
		t, err := vc.lemmaInstance(lem, env, a.Args)
		if err != nil {
			sfail("%v", err)
		}
		vc.usedLemmas = append(vc.usedLemmas, lem.Name)
		return &SVal{T: t, Go: tb}
	case "old":
		need(1)
		ne := env.child()
		ne.cur = env.old
		for k, v := range env.oldVars {
			ne.vars[k] = v
		}
		if env.local != nil {
			inner := env.local
			cur := env.cur
			// locals are values, not heap locations of the caller's view: inside old(..) a local keeps its
			// current value (as in Dafny); only parameters (entry values) and heap reads go back to the entry state
			ne.local = func(n string, st *State) *SVal {
				if v, ok := env.oldVars[n]; ok {
					return v
				}
				return inner(n, cur)
			}
		}
		return ne.tr(args[0])
	case "len", "cap":
		need(1)
		x := env.tr(args[0])
		if x.Str != nil {
			return &SVal{CI: big.NewInt(int64(len(*x.Str)))}
		}
		x = env.materialize(x, nil)
		ti := types.Typ[types.Int]
		switch xt := x.Go.Underlying().(type) {
		case *types.Slice:
			if name == "len" {
				return &SVal{T: vc.slLen(x.T), Go: ti}
			}
			return &SVal{T: vc.slCap(x.T), Go: ti}
		case *types.Array:
			return &SVal{CI: big.NewInt(xt.Len())}
		case *types.Pointer:
			if at, ok := xt.Elem().Underlying().(*types.Array); ok {
				return &SVal{CI: big.NewInt(at.Len())}
			}
		case *types.Basic:
			if isString(x.Go) {
				return &SVal{T: vc.strLen(x.T), Go: ti}
			}
		}
		sfail("len of %v", x.Go)
	case "abs":
		need(1)
		x := env.materialize(env.tr(args[0]), nil)
		if isFloat(x.Go) {
			return &SVal{T: Ite(App(">=", SBool, x.T, Atom("0.0", SReal)), x.T, App("-", SReal, x.T)), Go: x.Go}
		}
		return &SVal{T: Ite(vc.iCmp(">=", x.T, vc.intConst(big.NewInt(0), x.Go), true), x.T, vc.iNeg(x.T)), Go: x.Go}
	case "min", "max":
		need(2)
		a, b := env.unify(env.tr(args[0]), env.tr(args[1]))
		var c *Term
		if isFloat(a.Go) {
			c = App("<=", SBool, a.T, b.T)
		} else {
			_, signed, _ := intInfo(a.Go)
			c = vc.iCmp("<=", a.T, b.T, signed)
		}
		if name == "min" {
			return &SVal{T: Ite(c, a.T, b.T), Go: a.Go}
		}
		return &SVal{T: Ite(c, b.T, a.T), Go: a.Go}
	case "ite":
		need(3)
		c := env.materialize(env.tr(args[0]), nil)
		a, b := env.unify(env.tr(args[1]), env.tr(args[2]))
		return &SVal{T: Ite(c.T, a.T, b.T), Go: a.Go}
	case "trunc":
		need(1)
		x := env.materialize(env.tr(args[0]), types.Typ[types.Float64])
		return &SVal{T: vc.truncReal(x.T), Go: types.Typ[types.Int]}
	case "isPosInf":
		need(1)
		x := env.materialize(env.tr(args[0]), types.Typ[types.Float64])
		return &SVal{T: Eq(x.T, vc.posInf()), Go: tb}
	case "posInf":
		need(0)
		return &SVal{T: vc.posInf(), Go: types.Typ[types.Float64]}
	case "fresh":
		need(1)
		x := env.materialize(env.tr(args[0]), nil)
		r := x.T
		if x.T.S.K == KSlice {
			r = vc.slArr(x.T)
		}
		return &SVal{T: App(">", SBool, r, vc.wm(env.old)), Go: tb}
	case "arr":
		need(1)
		x := env.materialize(env.tr(args[0]), nil)
		return &SVal{T: vc.slArr(x.T), Go: types.Typ[types.Int]}
	case "funcref":
		// funcref(name): the value of the named top-level function of the current package when used as a function value
		need(1)
		if args[0].K != EIdent {
			sfail("funcref needs a function name")
		}
		sp := vc.eng.SPkgs[env.pkgPath]
		if sp == nil || sp.Func(args[0].Op) == nil {
			sfail("funcref: no function %s in %s", args[0].Op, env.pkgPath)
		}
		fn := sp.Func(args[0].Op)
		return &SVal{T: vc.eng.funcIDTerm(fn), Go: fn.Signature}
	case "cell":
		// cell(s, j): element j of the array backing slice s, indexed from the start of the array (s[k] == cell(s, off(s)+k));
		// stating a range property over cells makes it carry over to sub-slices without index arithmetic
		need(2)
		x := env.materialize(env.tr(args[0]), nil)
		xt, ok := x.Go.Underlying().(*types.Slice)
		if !ok {
			sfail("cell on non-slice")
		}
		i := env.materialize(env.tr(args[1]), types.Typ[types.Int])
		key, _ := vc.elemKey(xt.Elem())
		r := &SVal{T: Select(Select(vc.heapGet(env.cur, key), vc.slArr(x.T)), foldInt(vc.toIdx(i.T, i.Go))), Go: xt.Elem()}
		env.heapReadInv(r)
		return r
	case "off":
		need(1)
		x := env.materialize(env.tr(args[0]), nil)
		return &SVal{T: vc.slOff(x.T), Go: types.Typ[types.Int]}
	case "typeis", "implements":
		need(2)
		x := env.materialize(env.tr(args[0]), nil)
		if x.T.S.K != KIface {
			sfail("%s on non-interface value", name)
		}
		var tt string
		if args[1].K == EStr {
			tt = args[1].Op
		} else {
			tt = strings.ReplaceAll(strings.ReplaceAll(args[1].String(), "(", ""), ")", "")
		}
		T, err := vc.eng.resolveType(vc.eng.PPkgs[env.pkgPath], tt)
		if err != nil {
			sfail("%v", err)
		}
		return &SVal{T: vc.tagMatches(vc.ifTag(x.T), T), Go: tb}
	case "substr":
		need(3)
		x := env.materialize(env.tr(args[0]), types.Typ[types.String])
		lo := env.materialize(env.tr(args[1]), types.Typ[types.Int])
		hi := env.materialize(env.tr(args[2]), types.Typ[types.Int])
		return &SVal{T: vc.substr(env.cur, x.T, vc.toIdx(lo.T, lo.Go), vc.toIdx(hi.T, hi.Go)), Go: types.Typ[types.String]}
	case "hamming":
		// hamming(a, b, n): number of positions k < n in which the binary representations of a and b differ
		need(3)
		a := env.materialize(env.tr(args[0]), types.Typ[types.Int])
		b := env.materialize(env.tr(args[1]), types.Typ[types.Int])
		if !vc.isBV() {
			a = env.coerce(a, types.Typ[types.Int], "hamming")
			b = env.coerce(b, types.Typ[types.Int], "hamming")
		}
		nv := env.tr(args[2])
		if nv.CI == nil || nv.CI.Int64() < 1 || nv.CI.Int64() > 64 {
			sfail("hamming needs a literal bit count 1..64")
		}
		n := int(nv.CI.Int64())
		var srt *Sort
		if vc.isBV() {
			a, b = env.unify(a, b)
			srt = a.T.S
		} else {
			srt = SInt
		}
		build := func(x, y *Term) *Term {
			if vc.isBV() {
				w := x.S.W
				sum := BVLit(big.NewInt(0), 64)
				for k := 0; k < n && k < w; k++ {
					ba := App(fmt.Sprintf("(_ extract %d %d)", k, k), SBV(1), x)
					bb := App(fmt.Sprintf("(_ extract %d %d)", k, k), SBV(1), y)
					sum = App("bvadd", SBV(64), sum, Ite(Eq(ba, bb), BVLit(big.NewInt(0), 64), BVLit(big.NewInt(1), 64)))
				}
				return sum
			}
			var sum *Term = IntLit64(0)
			for k := 0; k < n; k++ {
				ba := App("mod", SInt, App("div", SInt, x, IntLit(pow2(k))), IntLit64(2))
				bb := App("mod", SInt, App("div", SInt, y, IntLit(pow2(k))), IntLit64(2))
				sum = App("+", SInt, sum, Ite(Eq(ba, bb), IntLit64(0), IntLit64(1)))
			}
			return foldInt(sum)
		}
		// literal operands: evaluate; otherwise the distance is a named function with its definition stated once per
		// application (ground) or once as an axiom (applications under a quantifier), so that proofs that only need
		// "the same distance" go through by congruence instead of comparing two adder trees
		_, la := intLitVal(a.T)
		_, lb := intLitVal(b.T)
		if (la && lb) || vc.lemmaMode {
			return &SVal{T: build(a.T, b.T), Go: types.Typ[types.Int]}
		}
		resSort := SInt
		if vc.isBV() {
			resSort = SBV(64)
		}
		fname := fmt.Sprintf("hamming!%d!%s", n, srt.Key())
		vc.declareFun(fname, []*Sort{srt, srt}, resSort)
		app := App(fname, resSort, a.T, b.T)
		if vc.con != nil && vc.con.Opts["opaque"] == "hamming" {
			// the proof only needs "the same distance": no definition is given (fewer hypotheses, still sound)
		} else if mentionsBound(a.T) || mentionsBound(b.T) {
			if !vc.declSeen["ax:"+fname] {
				vc.declSeen["ax:"+fname] = true
				x, y := Atom("x!h", srt), Atom("y!h", srt)
				fx := App(fname, resSort, x, y)
				vc.facts = append(vc.facts, Forall([]*Term{x, y}, Eq(fx, build(x, y)), []*Term{fx}))
			}
		} else if key := "def:" + app.String(); !vc.declSeen[key] {
			vc.declSeen[key] = true
			vc.facts = append(vc.facts, Eq(app, build(a.T, b.T)))
		}
		return &SVal{T: app, Go: types.Typ[types.Int]}
	case "lowmask32":
		need(1)
		x := env.materialize(env.tr(args[0]), types.Typ[types.Uint])
		if vc.isBV() {
			sfail("lowmask32 is an int-mode builtin")
		}
		return &SVal{T: vc.lowMask(env.cur, IntLit64(32), x.T), Go: types.Typ[types.Uint32]}
	case "wordbit":
		// wordbit(w, j): bit j of the unsigned word w (0 <= j < width)
		need(2)
		w := env.materialize(env.tr(args[0]), types.Typ[types.Uint32])
		j := env.materialize(env.tr(args[1]), types.Typ[types.Int])
		if vc.isBV() {
			jj := vc.convInt(j.T, j.Go, w.Go)
			one := vc.intConst(big.NewInt(1), w.Go)
			return &SVal{T: Eq(App("bvand", w.T.S, App("bvlshr", w.T.S, w.T, jj), one), one), Go: tb}
		}
		return &SVal{T: vc.wbit(w.T, j.T), Go: tb}
	case "reverse32", "tz32", "popcount32":
		need(1)
		x := env.materialize(env.tr(args[0]), types.Typ[types.Uint32])
		if !vc.isBV() {
			// int mode: an uninterpreted function of the word (nothing is known about it beyond being a function)
			vc.declareFun(name+"!int", []*Sort{SInt}, SInt)
			return &SVal{T: App(name+"!int", SInt, x.T), Go: types.Typ[types.Uint32]}
		}
		x = env.coerce(x, types.Typ[types.Uint32], name)
		switch name {
		case "reverse32":
			return &SVal{T: vc.bitsStub("Reverse32", x.T), Go: types.Typ[types.Uint32]}
		case "tz32":
			return &SVal{T: vc.bitsStub("TrailingZeros32", x.T), Go: types.Typ[types.Int]}
		default:
			return &SVal{T: vc.bitsStub("OnesCount32", x.T), Go: types.Typ[types.Int]}
		}
	case "ptrof":
		// ptrof(x, "*T"): the pointer held by interface value x, viewed as *T (meaningful when typeis(x, "*T"))
		need(2)
		x := env.materialize(env.tr(args[0]), nil)
		if x.T.S.K != KIface || args[1].K != EStr {
			sfail("ptrof needs an interface value and a quoted pointer type")
		}
		T, err := vc.eng.resolveType(vc.eng.PPkgs[env.pkgPath], args[1].Op)
		if err != nil {
			sfail("%v", err)
		}
		return &SVal{T: vc.ifVal(x.T), Go: T}
	case "unboxptr":
		need(1)
		x := env.materialize(env.tr(args[0]), nil)
		return &SVal{T: vc.ifVal(x.T), Go: types.Typ[types.Int]}
	}
	return nil
}

func (vc *VC) posInf() *Term {
	c := vc.declare("fp.inf", SReal)
	if !vc.declSeen["fp.inf!ax"] {
		vc.declSeen["fp.inf!ax"] = true
		vc.facts = append(vc.facts, App(">=", SBool, c, Atom("1000000000000000000000000000000.0", SReal)))
		vc.assumed["math.Inf(1) modelled as a real constant >= 1e30; finite inputs are assumed below it"] = true
	}
	return c
}

// ---------------------------------------------------------------- recursive / abstract spec functions as UFs

func (env *SEnv) ufInfo(sf *SpecFunc) *specUFInfo {
	vc := env.vc
	key := sf.PkgPath + "." + sf.Name
	if info, ok := vc.specUF[key]; ok {
		return info
	}
	info := &specUFInfo{sf: sf, name: "sf!" + strings.TrimPrefix(sf.PkgPath, modulePath) + "." + sf.Name}
	vc.specUF[key] = info
	// probe which heap components the body reads
	if sf.Body != nil {
		saved := vc.heapTrace
		vc.heapTrace = map[string]bool{}
		probe := &State{guard: TTrue, locals: map[*ssa.Alloc]*Term{}, heap: map[string]*Term{}, base: "probe"}
		pe := vc.newEnv(probe, probe, sf.PkgPath)
		pe.depth = env.depth + 1
		for _, p := range sf.Params {
			pe.vars[p.Name] = &SVal{T: vc.declare("probe!"+p.Name+"!"+vc.sortOf(p.Type).Key(), vc.sortOf(p.Type)), Go: p.Type}
		}
		info.probing = true
		nf := len(vc.facts)
		func() {
			defer func() {
				if r := recover(); r != nil {
					if se, ok := r.(specErr); ok {
						info.probing = false
						vc.heapTrace = saved
						sfail("in spec func %s: %s", sf.Name, string(se))
					}
					panic(r)
				}
			}()
			pe.tr(sf.Body)
		}()
		_ = nf
		info.probing = false
		for k := range vc.heapTrace {
			if k == "wm" {
				// the allocation watermark only occurs in type-invariant side facts; the value does not depend on it
				if saved != nil {
					saved[k] = true
				}
				continue
			}
			info.heapKeys = append(info.heapKeys, k)
			if saved != nil {
				saved[k] = true
			}
		}
		sortStrings(info.heapKeys)
		vc.heapTrace = saved
	}
	var as []*Sort
	for _, k := range info.heapKeys {
		as = append(as, vc.heapSorts[k])
	}
	for _, p := range sf.Params {
		as = append(as, vc.sortOf(p.Type))
	}
	info.argSorts = as
	info.res = vc.sortOf(sf.Result)
	vc.declareFun(info.name, as, info.res)
	return info
}

func sortStrings(s []string) {
	for i := 1; i < len(s); i++ {
		for j := i; j > 0 && s[j-1] > s[j]; j-- {
			s[j-1], s[j] = s[j], s[j-1]
		}
	}
}

func (env *SEnv) callUF(sf *SpecFunc, avs []*SVal) *SVal {
	vc := env.vc
	info := env.ufInfo(sf)
	if info.probing {
		// recursive occurrence while probing: heap keys are the same as the outer ones
		return &SVal{T: vc.fresh("probe!rec", vc.sortOf(sf.Result)), Go: sf.Result}
	}
	var args []*Term
	for _, k := range info.heapKeys {
		args = append(args, vc.heapGet(env.cur, k))
	}
	for i, a := range avs {
		// name compound arguments so that repeated unfolding does not duplicate them (linear instead of exponential size)
		if len(a.T.Args) > 0 && !mentionsBound(a.T) && a.T.Op != "mk-slice" {
			if _, lit := intLitVal(a.T); !lit {
				nt := vc.define("ufarg", a.T)
				avs[i] = &SVal{T: nt, Go: a.Go}
				a = avs[i]
			}
		}
		args = append(args, a.T)
	}
	app := App(smtName(info.name), info.res, args...)
	if sf.Body != nil {
		vc.pendingUnfold = append(vc.pendingUnfold, &ufApp{info: info, app: app, st: env.cur, vals: avs, depth: env.unfoldDepth})
	}
	return &SVal{T: app, Go: sf.Result}
}

// callUFOpaque: an application of an opaque spec function outside the contracts that reveal it: an uninterpreted function
// of the heap components its body reads and of its arguments (no defining equation).
func (env *SEnv) callUFOpaque(sf *SpecFunc, avs []*SVal) *SVal {
	vc := env.vc
	info := env.ufInfo(sf)
	if info.probing {
		return &SVal{T: vc.fresh("probe!rec", vc.sortOf(sf.Result)), Go: sf.Result}
	}
	var args []*Term
	for _, k := range info.heapKeys {
		args = append(args, vc.heapGet(env.cur, k))
	}
	for _, a := range avs {
		args = append(args, a.T)
	}
	return &SVal{T: App(smtName(info.name), info.res, args...), Go: sf.Result}
}

func mentionsBound(t *Term) bool {
	found := false
	t.walk(func(x *Term) {
		if len(x.Args) == 0 && strings.Contains(x.Op, "!q") {
			found = true
		}
	})
	return found
}

// flushUnfold emits the defining equation of every pending recursive application (up to the fuel).
func (vc *VC) flushUnfold() {
	fuel := 1
	if vc.con != nil {
		if f, ok := vc.con.Opts["fuel"]; ok {
			fmt.Sscanf(f, "%d", &fuel)
		}
	}
	seen := vc.unfoldSeen
	if seen == nil {
		seen = map[string]bool{}
		vc.unfoldSeen = seen
	}
	for len(vc.pendingUnfold) > 0 {
		a := vc.pendingUnfold[0]
		vc.pendingUnfold = vc.pendingUnfold[1:]
		if a.depth >= fuel {
			continue
		}
		key := a.app.String()
		if seen[key] {
			continue
		}
		seen[key] = true
		bound := map[string]*Term{}
		a.app.walk(func(x *Term) {
			if len(x.Args) == 0 && strings.Contains(x.Op, "!q") {
				bound[x.Op] = x
			}
		})
		env := vc.newEnv(a.st, a.st, a.info.sf.PkgPath)
		env.unfoldDepth = a.depth + 1
		for i, p := range a.info.sf.Params {
			env.vars[p.Name] = a.vals[i]
		}
		body, err := env.trAny(a.info.sf.Body)
		if err != nil {
			vc.note("spec function " + a.info.sf.Name + ": " + err.Error())
			continue
		}
		body = env.coerceSafe(body, a.info.sf.Result)
		if body == nil {
			continue
		}
		eq := Eq(a.app, body.T)
		if len(bound) > 0 {
			var bs []*Term
			for _, k := range sortedKeys(bound) {
				bs = append(bs, bound[k])
			}
			eq = Forall(bs, eq, []*Term{a.app})
		}
		vc.facts = append(vc.facts, eq)
	}
}

func (env *SEnv) coerceSafe(v *SVal, want types.Type) (out *SVal) {
	defer func() {
		if r := recover(); r != nil {
			if _, ok := r.(specErr); ok {
				out = nil
				return
			}
			panic(r)
		}
	}()
	return env.coerce(v, want, "spec function body")
}

// heapReadInv: a value read from the heap in a specification satisfies the invariant of its Go type
// (well-formed slice header, references below the allocation watermark, ...).
func (env *SEnv) heapReadInv(v *SVal) {
	vc := env.vc
	switch v.Go.Underlying().(type) {
	case *types.Slice, *types.Pointer, *types.Map, *types.Interface:
	default:
		if !isString(v.Go) {
			if !(isInteger(v.Go) && !vc.isBV()) {
				return
			}
		}
	}
	if mentionsBound(v.T) {
		if env.binvs != nil {
			inv := vc.typeInv(v.T, v.Go, env.cur)
			if !inv.IsTrue() {
				is := inv.String()
				for _, x := range *env.binvs {
					if x.String() == is {
						return
					}
				}
				*env.binvs = append(*env.binvs, inv)
			}
		}
		return
	}
	key := "inv:" + v.T.String() + "@" + vc.wm(env.cur).String()
	if vc.declSeen[key] {
		return
	}
	vc.declSeen[key] = true
	vc.facts = append(vc.facts, vc.typeInv(v.T, v.Go, env.cur))
}

// ground replaces a read of a dumped table cell (in the entry heap) by its literal value.
func (env *SEnv) ground(t *Term) *Term {
	if env.vc.groundVals == nil || env.vc.noGround {
		return t
	}
	if v, ok := env.vc.groundVals[t.String()]; ok {
		return v
	}
	return t
}
