#!/bin/bash
# Builds the govc verification-condition generator from vendored sources (offline).
set -e
cd "$(dirname "$0")/engine"
export GOFLAGS=-mod=vendor GOPROXY=off GOSUMDB=off GOTOOLCHAIN=local CGO_ENABLED=0
mkdir -p ../bin
go build -o ../bin/govc .
echo "govc built: $(cd .. && pwd)/bin/govc"
