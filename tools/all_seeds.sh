#!/bin/bash
# re-runs every archived seeded change against its property's quick check (must-fail corpus); prints one line per seed
cd /verif
for d in seeded/*/; do
  n=$(basename $d); P=${n%-*}; V=${n#*-}
  exp=$(python3 -c "import json;print(json.load(open('$d/meta.json'))['govc_quick_check']['result'])")
  out=$(tools/try_seed.sh $P $V 2>&1 | grep -E 'check .* exit=' | head -1)
  echo "$n expected=$exp $out"
done
