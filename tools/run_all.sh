#!/bin/bash
# runs every quick check of MANIFEST.json on the current tree and validates the evidence files
cd /verif
tier=${1:-quick}
fail=0
for p in $(python3 -c "import json;print(' '.join(c['property_id'] for c in json.load(open('MANIFEST.json'))['checks']))"); do
  s=$(date +%s)
  out=$(bin/govc check --property $p --tier $tier 2>&1 | grep -v WARN | tail -1)
  rc=${PIPESTATUS[0]}
  e=$(( $(date +%s) - s ))
  echo "$p ${e}s: $out"
  case "$out" in *" 0 violation(s)"*) ;; *) fail=1;; esac
done
python3-vt - <<'PY'
import json,jsonschema,glob
sch=json.load(open('/root/.vp/EVIDENCE.schema.json'))
for f in sorted(glob.glob('/verif/evidence/*.json')):
    e=json.load(open(f))
    try:
        jsonschema.validate(e,sch)
        c=e['coverage']
        ok = c.get('obligations')==c.get('discharged')
        print(f.split('/')[-1], 'valid', 'obligations', c.get('obligations'), 'discharged', c.get('discharged'), '' if ok else '  <-- MISMATCH')
    except Exception as ex:
        print(f, 'INVALID', str(ex)[:200])
PY
exit $fail
