#!/usr/bin/env python3
import json,sys
pid=sys.argv[1]
for l in open('/verif/properties.jsonl'):
    p=json.loads(l)
    if p['id']==pid: break
print(f"""You are helping test a verification effort on the open-source Go library makiuchi-d/gozxing (a pure-Go port of the ZXing barcode library). Your job: write a realistic, subtle code change (a "seeded defect") that BREAKS the semantic property below, while the library still compiles and its existing test suite still passes.

Work ONLY inside your own scratch git worktree: /tmp/seed/{pid}  (a checkout of the library; HEAD is the base). Do not read or touch /repo or /verif or any other /tmp/seed/* directory.

Shell setup for every command (no network is available):
  export GOFLAGS=-mod=mod GOPROXY=off GOSUMDB=off GOTOOLCHAIN=local
Existing test suite (must still pass with your change): cd /tmp/seed/{pid} && go test -vet=off -count=1 ./...

THE PROPERTY ({pid}: {p['title']}):
{p['statement']}

Scope of "for all": {p['quantifier']['text']}

Files where the mechanism lives: {', '.join(p['anchors']['files'])}

What I need from you — TWO independent changes (variant A and variant B), each one:
 1. a small change to the library's non-test Go source (a few lines; do NOT edit tests, do not add new files to the library) after which the property above is violated for some input,
 2. that still compiles and passes the whole existing test suite unedited,
 3. that needs something SPECIFIC to manifest — an unusual input, a particular size/width/residue class, a boundary value, a multi-step sequence of operations, or two cooperating edit sites that each look fine alone — NOT something ordinary use would expose at once,
 4. looks like a plausible mistake or 'optimisation' a maintainer could make (off-by-one, wrong boundary, dropped check, swapped table entry, wrong mask/shift, mishandled error...), not sabotage with magic constants.
The two variants should touch different functions/mechanisms if possible.

For each variant deliver, under /tmp/seed/{pid}/out/A/ and /tmp/seed/{pid}/out/B/ :
  - patch.diff : produced with `git -C /tmp/seed/{pid} diff HEAD -- . ':!out'` while ONLY that variant's change is applied (must apply cleanly to HEAD with `git apply`),
  - demo_test.go : a Go test file (say which package directory it belongs in, in a first-line comment like `// place in: oned/`) that FAILS with the change applied and PASSES on the unchanged HEAD. It may be an in-package test (so it can use unexported identifiers),
  - meta.json : {{"property":"{pid}","variant":"A","files_changed":[...],"what_breaks":"...","needs_to_manifest":"...","commands_run":["..."],"existing_tests_pass":true}}.
Verify all of this yourself: (a) with the patch applied the full test suite passes, (b) with the patch applied the demo test fails, (c) with the patch reverted the demo test passes. Leave the worktree at HEAD (clean except for the out/ directory) when you finish, with no stray demo test files left in package directories.
Reply with a short summary of the two variants (files/functions changed, what input triggers them).""")
