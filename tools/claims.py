# Claims per property. Executed by gen_manifest.py (claim / na are defined there).
NOTYET = "no contract set built for this property yet in this session; nothing is claimed (technique unchanged: contracts + govc)"

claim("C20",
      "PatternMatchVariance is proved equal to its closed-form specification (infinite below one pixel per module, infinite on an individual deviation above the limit, otherwise total absolute deviation / total width, never negative) "
      "for all counter and pattern vectors, with loop invariants over recursive sum/absdev spec functions. RecordPattern is proved panic-free, to fail (NotFoundException) only when start is outside the row or fewer than n-1 colour "
      "changes follow, and to leave every counter in 1..row size on success. The three best-match decoders are proved against 'the variance' as an opaque value: itfReader_decodeDigit returns the digit of the unique pattern with the "
      "strictly smallest variance below the limit and refuses ties; upceanReader_decodeDigit and code128DecodeCode return the first pattern with the smallest variance below the limit and fail exactly when RecordPattern fails or no "
      "pattern is below the limit. BitArray.Get is proved against the abstract bit view. Not stated: that RecordPattern's counters are exactly the run lengths; RecordPatternInReverse; decodeDigit of the other symbologies.",
      "float64 treated as real arithmetic (+Inf as a real constant >= 1e30; named float constants are their float64 values); int overflow excluded by size preconditions; pmv is opaque outside PatternMatchVariance.")

claim("C16",
      "Every BitArray operation (Get/Set/Flip/SetBulk/SetRange/Clear/IsRange/GetNextSet/GetNextUnset/AppendBit/AppendBits/AppendBitArray/Xor/ToBytes/Reverse/"
      "ensureCapacity/constructors) and the BitMatrix operations Get/Set/Unset/Flip/FlipAll/Clear/SetRegion/GetRow/SetRow/Rotate90/NewBitMatrix are proved against the naive "
      "boolean-grid view (whole-view postconditions: touched and untouched bits, padding bits zero), for all sizes and widths, with loop invariants and frame conditions. "
      "Reverse is proved at word level plus a bit-level word lemma. Rotate180, GetEnclosingRectangle, GetTopLeftOnBit, GetBottomRightOnBit and the string forms are not under functional contract yet.",
      "BitArray functions are verified with exact 64/32-bit vectors; BitMatrix functions in integer mode with the bit theory (wbit axioms) and products of symbolic integers "
      "uninterpreted except for the separately proved index lemmas (rowIdx, rowIdxInj, rowLast, rowRange, mulBound); int overflow not checked in int mode.")

claim("C13",
      "QR: willFit is proved equal to 'data codewords of (version, level) >= ceil(bits/8)' over the compiled VERSIONS table; chooseVersion is proved to return the least "
      "version that fits, or an error exactly when none of 1..40 fits (loop invariant). Table lemmas (all 160 version/level pairs, by cases over the dumped table): block structure "
      "sums to the total codewords, total = raw modules/8 by the standard's closed form, capacity strictly ordered by level and version, anchor capacities 19/9/2956/2334/1666/1276. "
      "Data Matrix: SymbolInfo_Lookup is proved to return the first table entry that passes the shape/min/max filters and holds the codewords (nil/error exactly when none does); "
      "the 30-entry symbol table is proved consistent (regions, modules = 8*(data+error), interleaved blocks, capacity order per shape, 144x144 = 1558). "
      "Not covered yet: the two-pass recommendVersion argument, the forced-version hint in Encoder_encode, the published digit/alphanumeric capacities derived from segment bit counts.",
      "table contents are dumped from the compiled package on every run (after init) and assumed unmodified afterwards (the C18 frame claim); "
      "products of symbolic integers uninterpreted outside lemmas; contracts of ECBlocks methods applied to interior pointers &v.ecBlocks[i].")

claim("C09",
      "Only the orientation and mirroring mechanics are claimed; the negative guarantee ('never different content') is not decided. Proved for all inputs: "
      "GoImageLuminanceSource.RotateCounterClockwise returns a view whose pixel (x, y) is the source pixel (width-1-y, x) of the cropped window, for every crop (C17 pixel model); "
      "BitMatrixParser.Mirror transposes the module matrix (get'(a, b) == get(b, a) for every cell of a square matrix, nested loop invariants over the abstract bit view); "
      "BitArray.Reverse reverses a row (C16); OneDReader.doDecode reverses the row only for the second attempt and attaches the ORIENTATION metadata only to a result found on that attempt (call-site assertions); "
      "BitMatrix.Rotate180 reverses one-word rows (narrow contract; a defect for widths that are a multiple of 32 was found and fixed). "
      "Not decided: that a located-but-damaged symbol is rejected rather than misread (rests on the check digits of C10, the BCH distance of C05 and Reed-Solomon decoding, not composed), the detectors, padding/upscaling invariance, "
      "TRY_HARDER rotation in the readers, the mirrored flag in DecoderResult.",
      "doDecode is checked for its call-site assertions only; float64 as reals; hint maps unmodelled.")
claim("C10",
      "UPC/EAN mod-10: upceanReader_getStandardUPCEANChecksum is proved equal to the standard formula (recursive digit-sum spec, weights 3/1 from the right) and to "
      "fail exactly on a non-digit; checkStandardUPCEANChecksum is proved to accept exactly 'last digit == mod10(prefix)'; convertUPCEtoUPCA is proved equal to the "
      "zero-suppression expansion character by character; the EAN-13, EAN-8 and UPC-E writers carry a proved assertion that the canonical contents end in the standard "
      "check digit (UPC-E: of the expanded number) on both the computed and the supplied path; onedWriter_checkNumeric is proved to accept exactly digit strings; "
      "EAN-5 extensionChecksum and determineCheckDigit are proved against formula and table; parity tables (EAN-5, UPC-E vs EAN-13 first digit) proved by cases over the dumped tables; ean13Reader_determineFirstDigit and determineNumSysAndCheckDigit return exactly the table position of the observed L/G parity pattern (NotFoundException exactly when it is in neither table). "
      "Not covered: Code 128 mod-103 and Code 93 C/K checksums, the single-substitution detection lemmas, EAN-2 parity.",
      "strings are canonical ids with length/character functions; strconv.Itoa stubbed (exact for 0..9); range-over-string abstracted (ASCII exact); tables dumped from the compiled package.")

claim("C07",
      "Table and formula obligations over the compiled QR tables, each proved for every entry (by cases over the dumped tables, decided by the SMT solvers): total codewords of all 40 versions = "
      "raw modules/8 by the standard's closed form; at each of the four levels the block groups add up to that total, second group one data codeword longer; capacity ordering; anchor capacities; "
      "alignment centres (count v/7+2, first 6, last 4v+10, even equal steps) and the encoder's padded copy of them; all 32 format words and 34 version words equal the BCH remainder with "
      "generator 0x537 / 0x1f25 (mask 0x5412); the encoder's block-size arithmetic reproduces every table row. Function contracts: the eight decoder mask predicates and "
      "MaskUtil_getDataMaskBit are proved equal to the ISO mask formulas; calculateBCHCode is proved to be the GF(2) remainder (the same spec function as the table lemmas) and makeTypeInfoBits / makeVersionInfoBits to emit "
      "exactly (level, mask).BCH xor 101010000010010 and version.BCH, most significant bit first; getNumDataBytesAndNumECBytesForBlockID is proved against its arithmetic specification; embedDataBits is proved (call-site assertion on every module write) to write into each module it fills either the data bit just consumed or, once the data is used up, a remainder bit 0, in both cases XORed with the ISO mask condition of that module (remainder bits are masked too); embedTypeInfo is proved (call-site assertions) to place format bit i (i = 0 least significant) at column 8 rows 0..5,7,8 / row 8 columns 7,5..0 and, as second copy, at row 8 from the right edge for i < 8 and column 8 in the bottom seven rows for i >= 8 (figure 25). maybeEmbedVersionInfo is proved (loop invariants and call-site assertions) to place version bit 3i+j (0 = least significant) at column i, row height-11+j and at the transposed position (figure 26). "
      "Not decided: the zigzag order in which embedDataBits visits modules; EC block counts against the standard's table entry by entry (no independent copy; the structural invariants pin every entry up to compensating errors), "
      "function-pattern embedding (embedBasicPatterns), and matrix_lib == matrix_ref for whole symbols.",
      "tables dumped from the compiled package on every run; products of symbolic integers uninterpreted in function VCs (mask 5-7 claims are conditional on i*j >= 0).")
claim("C01",
      "Mirror pairs of the QR codec, each proved for all inputs (the composition through placement, interleaving and Reed-Solomon is not): "
      "(1) bit level: BitArray.AppendBits writes value bits most-significant first at the end (C16) and BitSource.ReadBits returns the next n stream bits most-significant first, advances by exactly n, fails exactly when n is outside 1..32 or exceeds what is available (returning 0 and leaving the position); "
      "(2) data masks: the encoder's MaskUtil_getDataMaskBit and the eight decoder predicates equal the same ISO formulas (C07); "
      "(3) numeric and alphanumeric modes: every AppendBits call of appendNumericBytes/appendAlphanumericBytes carries exactly the 10/7/4-bit digit groups and 11/6-bit code pairs of the standard, the encoder's code table and the decoder's character list are inverse (all 96/45 entries), and the packing arithmetic is inverted by the decoder's / and % (lemmas); "
      "(4) Kanji mode: appendKanjiBytes emits kanjiEnc(code) in 13 bits for codes in the two Shift JIS ranges only, decodeKanjiSegment hands the Shift JIS decoder 2*count bytes whose lead bytes lie in 0x81..0x9F / 0xE0..0xEB with trail >= 0x40 (the image of the standard's inverse map), and kanjiDec(kanjiEnc(c)) == c for every double-byte code (lemma); "
      "(5) character count: in Encoder_encode the count written by appendLengthInfo equals the payload that follows (numericBits(n), alnumBits(n), 8*n bits) — proved as a call-site assertion over the proved payload sizes of appendBytes; "
      "(6) terminateBits (thorough tier): at most four terminator zeros, zero padding to the byte boundary, then the pad codewords 11101100/00010001 alternately up to exactly 8*numDataBytes bits, the data prefix unchanged, an error exactly when the data does not fit; "
      "(7) generateECBytes hands the QR-field Reed-Solomon encoder exactly the block's data bytes and returns the parity the encoder wrote behind them (composed with the C04 Encode contract: data unchanged, parity symbols are field elements); "
      "(8) mode table: the mode indicators and the character-count widths of the three version classes equal the standard (lemma modeTable), Mode.GetCharacterCountBits selects the class by the boundaries 9|10 and 26|27, ModeForBits maps exactly the defined indicators; (9) version choice (C13), format/version bits of the encoder (C07) and format/version word tolerance of the decoder (C05). "
      "Not decided: decodeNumericSegment/decodeAlphanumericSegment/decodeByteSegment against the stream, interleaveWithECBytes <-> DataBlock_GetDataBlocks, the visiting order of embedDataBits <-> ReadCodewords (that each written module is data-or-remainder bit XOR mask is proved, C07), extractPureBits/moduleSize, ECI handling, the end-to-end round trip.",
      "Encoder_encode is checked for its call-site assertion only (its postconditions stay a trusted summary); x/text encoders are stubs (arbitrary bytes, length <= 4*len+64); hint maps unmodelled; appendKanjiBytes/decodeKanjiSegment in 64-bit vectors, the other segment functions over mathematical integers.")
claim("C15",
      "Narrow claim on the ECI and Kanji plumbing: parseECIValue is proved to decode the one-, two- and three-byte designator forms of ISO/IEC 18004 8.4.1.1, to consume exactly 8/16/24 bits, to return a value in 0..2^21-1, "
      "and to fail (returning -1) exactly on a short stream or a first byte 111xxxxx; appendECI is proved to write the mode indicator 0111 followed by the entry's canonical value in 8 bits, which is the correct designator because every "
      "registered entry's canonical value is an assigned number 0..30 (lemma over all 22 compiled registry entries; all alias values < 900); Kanji mode: kanjiDec(kanjiEnc(c)) == c for every Shift JIS double-byte code, the encoder emits kanjiEnc(code) "
      "for codes in the two ranges only and the decoder hands the Shift JIS decoder only bytes in the image of the inverse map (see C01); the byte-mode character count equals the number of bytes actually emitted in the hinted encoding (C01 item 5). "
      "Not decided: the registry maps valueToECI/nameToECI (Go maps are not modelled: lookups return arbitrary values), GetCharacterSetECI/ByName/ByValue consistency, that the ECI segment is emitted whenever a hint is given, "
      "guessCharset, the transcoders of golang.org/x/text (external), decodeByteSegment's choice of character set, the end-to-end round trip per encoding.",
      "x/text transcoders and ianaindex are external stubs; maps unmodelled; tables dumped from the compiled package.")
claim("C02",
      "Narrow claim on codeword-level mirror pieces of the Data Matrix codec (the round trip and termination of the high-level encoder are not decided): "
      "Base 256: base256Randomize255State and the decoder's unrandomize255State are proved equal to the annex B.2 formulas and inverse of each other for every byte and position (lemma), and the two-byte length field is inverted by the decoder's arithmetic; "
      "pad codewords follow the 253-state rule (C08); EDIFACT: decodeEdifactSegment is proved to end without consuming anything when two or fewer codewords remain (5.2.8.2); "
      "X12: x12EncodeChar appends exactly the table value of the character and fails exactly on characters outside the set, the value table is inverted by the decoder's table (all 256 bytes), and x12HandleEOD hands the buffered values back, "
      "selects a symbol, and omits the unlatch codeword 254 exactly when the symbol is full with nothing left or one character and one codeword remain; "
      "C40/Text/X12 triplets: c40EncodeToCodewords packs 1600*c1+40*c2+c3+1 high byte first, parseTwoBytes recovers the three values, and the two are inverse for all values below 40 (lemma); "
      "decodeBase256Segment allocates its buffer with a valid size and reads a byte only while eight bits are available (partial check); "
      "Decoder.correctErrors passes every codeword of a block to the Reed-Solomon decoder in order and copies back only the data codewords; the parity blocks and their interleaving on the encoder side are C08; symbol choice is C13. "
      "Not decided: EncodeHighLevel and lookAheadTest (mode switching, termination), the C40/Text/EDIFACT/ASCII encoders and their end-of-data rules, decodeAsciiSegment/decodeC40Segment/decodeTextSegment/decodeBase256Segment against the encoders, "
      "DataBlocks_getDataBlocks de-interleaving, error propagation in Decoder.Decode and EncodeHighLevel. Pre-screened suspicions in this area (extended-ASCII characters returned as raw bytes, swallowed encoder errors) were not turned into checks and are listed as open in DESIGN.md.",
      "SymbolInfo_Lookup under its C13 contract; tables dumped from the compiled package; x/text charmap external.")
claim("C03",
      "Narrow claim on the writer/reader mirror pieces of the 1-D symbologies (the rendered-image round trip itself is not decided): "
      "Code 128: code128ChooseCode is proved to return a code set that can encode the next character (A: ASCII 0..95 or FNC1-4, B: ASCII 32..127 or FNC1-4, C: a digit pair or FNC1) for every content and position, "
      "code128FindCType equals its classification; the 107-entry pattern table shared by writer and reader has 11-module six-run patterns (stop: 13 modules, seven runs), pairwise distinct (5565 pairs); "
      "ITF: the writer's pattern table marks the same elements wide/narrow as both width variants of the reader's table, two wide of five, pairwise distinct; validateQuietZone accepts exactly rows whose min(10 narrow widths, start) pixels before the start pattern are white, skipWhiteSpace returns the first black pixel; "
      "UPC/EAN: L patterns are four runs of 7 modules, G = reversed L (as built by init), all 20 distinct; the check-digit, UPC-E expansion and parity-table obligations of C10 (convertUPCEtoUPCA, writer check digits, EAN-13/UPC-E parities) carry the canonical(c) part; "
      "onedWriter_renderResult's geometry is C14. "
      "Not decided: the row decoders (decodeRow of every reader) against rendered rows, Code 39/93 extended-mode escapes, Codabar, the Code 128 reader's code-set state machine and checksum, quiet-zone validation, MultiFormat dispatch, the end-to-end round trip.",
      "tables dumped from the compiled package (after init); runes as integers.")
claim("C04",
      "Field arithmetic, all six fields, every element: the compiled exp/log tables are proved to be the orbit of multiplication by x modulo the field's primitive polynomial "
      "(exp[0]=1, exp[i+1]=xtime(exp[i]), log(exp(i))=i, exp(log(x))=x, x*inv(x)=1 via the tables), GenericGF.Multiply/Inverse/Exp/Log are proved equal to their table definitions with exact error conditions, "
      "and table multiplication is proved equal to carry-less multiplication modulo the primitive polynomial for all pairs of GF(16) and GF(64) (quick) and both GF(256) fields (thorough tier). "
      "Encoder: NewGenericGFPoly/BuildMonomial/AddOrSubtract/MultiplyByMonomial/Multiply/Divide are proved to keep polynomials well formed (coefficients in the field, no leading zero), with exact error conditions, "
      "length/degree relations and provenance of the result's storage; Divide is proved (partial correctness) to return a remainder that is zero or of lower degree than the divisor; buildGenerator is proved to cache a "
      "degree-d polynomial at index d obtained from the previous one by the factor (x + alpha^(d-1+generatorBase)); ReedSolomonEncoder.Encode is proved to leave the data symbols unchanged, to write only parity positions, "
      "to write field elements, to place the division remainder right-aligned behind the data with leading zeros, to fail exactly on ecBytes <= 0 or no data, and to preserve the encoder invariant. "
      "Not decided by contracts: that the parity makes all syndromes zero (needs the ring identity dividend = q*g + r and the roots of g, i.e. polynomial algebra over the table-defined product), the whole decoder "
      "(syndromes, Euclid, Chien, Forney) and the correction bound floor(r/2) — for these a BOUNDED stand-in runs on every check (labelled bounded in the evidence, not counted as proved): encode, all syndromes zero by table-free arithmetic, corrupt up to floor(r/2) symbols, decode, for all six fields over small (k, r) shapes —, GF(1024)/GF(4096) table product == polynomial product for all pairs (16.7M cases), termination of Divide.",
      "tables dumped from the compiled package on every run; polynomial layer in integer mode (XOR facts imported from lemmas proved on 64-bit vectors); remainder by a symbolic positive divisor given its bounds explicitly; "
      "Encode assumes the buffer does not share memory with the encoder's polynomials (sepEnc) and len <= size-1.")
claim("C08",
      "Pieces of the ECC 200 construction, each stated from the standard and proved for all inputs or all table entries: the 30-entry symbol attribute table is consistent (regions, modules = 8*(data+error), "
      "interleaved blocks, 144x144 = 1558+620 in 8+2 blocks) and the decoder's version table holds the same 30 symbols (size, data region, total codewords, parity per block, block structure) — lemma by cases over both compiled tables; "
      "the encoder's private log/antilog tables are those of GF(256)/0x12D and the shared GenericGF Data Matrix field likewise (C04 lemmas); each of the 16 stored factor tables has the roots 2^1..2^n "
      "(Horner evaluation over the carry-less product for all 461 (table, root) pairs; with 2 of order 255 this determines the monic generator polynomial); randomize253State and base256Randomize255State are proved equal to the "
      "253-/255-state formulas for every position; DefaultPlacement.module is proved to write bit `bit` of codeword pos at the position wrapped by the annex F rules and nothing else; utah and corner1..4 are proved to place "
      "bits 1..8 at the eight offsets of figures F.1-F.6; createECCBlock is proved panic-free with exact error condition and result length; ErrorCorrection_EncodeECC200 is proved to keep the data codewords first and unchanged, "
      "to give each parity block exactly the codewords d = block (mod B) in order and the per-block parity length of the entry, for both kinds of table entry (calls through the entry's function fields are resolved over the "
      "functions stored into them, and the table lemma symbolsWf ties each entry to its functions). "
      "Not decided: the LFSR in createECCBlock against polynomial division, Place()'s traversal (which positions get which codeword index), the finder/clock tracks in encodeLowLevel, matrix_lib == matrix_ref for whole symbols.",
      "tables (including which function each SymbolInfo entry holds) are dumped from the compiled package on every run; products of symbolic integers uninterpreted except in the arithmetic lemmas; "
      "closed world for func-typed struct fields (the module is the whole program).")
claim("C05",
      "Format and version information: the pairwise Hamming distance of the 32 format words is >= 7 and of the 34 version words >= 8 (all pairs, over the compiled tables); "
      "FormatInformation_NumBitsDiffering is proved to be the Hamming distance; the nearest-entry searches Version_decodeVersionInformation and doDecodeFormatInformation are proved (loop invariants over the "
      "running minimum) to return the entry of the unique table word within distance 3 of the read word(s) and to refuse words farther than 3 from every entry, so up to three flipped bits are corrected "
      "(uniqueness follows from the distance lemmas by the triangle inequality, on paper). Decoder.correctErrors is proved to hand the Reed-Solomon decoder every codeword of the block, in order, widened to 0..255, "
      "in storage of its own, to copy back exactly the data codewords and to leave the block untouched on failure. "
      "Not decided here: Reed-Solomon correction itself (see C04: decoder not under contract), de-interleaving (DataBlock_GetDataBlocks), ReadFormatInformation/ReadVersion bit placement, the end-to-end statement over placed modules.",
      "tables dumped from the compiled package; math/bits.OnesCount given its defining bitwise specification; ReedSolomonDecoder.Decode is a havoc of its effect summary in correctErrors.")

claim("C19",
      "Over the reals: SquareToQuadrilateral is proved to send (0,0),(1,0),(0,1) to the given points and to compute the perspective coefficients as the solution of the 2x2 system "
      "(the (1,1) corner then follows from the polynomial identity corner11, proved separately; the final cancellation by D != 0 is on paper); buildAdjoint is proved to satisfy adj(M).M == det(M).I "
      "(all nine entries); times is proved to be composition in homogeneous coordinates for all points; TransformPoints is proved pointwise (pair i, i+1 of the slice). "
      "GridSampler_checkAndNudgePoints is proved to write only in-image coordinates, never to move a point whose pixel is inside the image, to leave the first and last point inside the image on success, "
      "to leave both neighbours of every point it pulled back inside the image (so, by induction on paper from the two ends, the whole leading and trailing run of points up to one pixel outside is pulled "
      "onto the edge), to report only NotFoundException, and to modify nothing else. "
      "DefaultGridSampler.SampleGridWithTransform (real products/quotients uninterpreted): for transforms sending every cell centre to a finite point, on success the result is a fresh "
      "dimensionX x dimensionY matrix in which every cell whose transformed centre (x+0.5, y+0.5) falls on an image pixel carries exactly that pixel; every failure is a NotFoundException with a nil matrix; "
      "the input image is not modified. BitMatrix.Get (C16) guarantees that nothing outside the image is read. "
      "Not decided: QuadrilateralToQuadrilateral as a whole, interior points outside the image (read as white when negative, NotFoundException when beyond the right/bottom edge) and the 1e-6 floating-point error bound.",
      "float64 treated as real arithmetic (no rounding, no NaN/Inf); float->int conversion is truncation for |x| < 1e9; in SampleGridWithTransform real products and quotients are uninterpreted functions (sound abstraction).")

claim("C14",
      "Geometry of the three renderers, for all requested sizes, symbols and non-negative margins: onedWriter_renderResult returns max(width, n+margin) x max(1,height), with "
      "multiple = out/(n+margin) >= 1 and leftPadding = (out - n*multiple)/2, and every bar region lies inside the image (the discarded SetRegion error can never occur: asserted at the call); "
      "QR renderResult returns max(requested, symbol + 2*quiet zone) on each axis, multiple = min over both axes >= 1, paddings as specified, every module block inside the image; "
      "Data Matrix convertByteMatrixToBitMatrix returns the requested size when the symbol fits in both directions and the bare symbol size otherwise, every block inside the image. "
      "BitMatrix.SetRegion itself is proved to set exactly the rectangle (C16). "
      "Not decided yet: the per-pixel statement pixel(x,y) == module((x-pad)/s, (y-pad)/s) for the three renderers (needs the composition of the SetRegion posts through the loops), and the image.Image view.",
      "products and quotients of symbolic integers are uninterpreted in the function VCs; the needed facts are the separately proved lemmas renderFit/scaleFit/divPos/mulSucc/mulMono.")

claim("C12",
      "For the writer front ends and renderers: OneDimensionalCodeWriter.Encode and QRCodeWriter.Encode are proved panic-free for every content, format, width, height and hint map, "
      "to return exactly one of (matrix, error), and a matrix at least as large as requested; onedWriter_renderResult, QR renderResult and the Data Matrix converter are proved panic-free with "
      "the block geometry inside the image (the discarded SetRegion error cannot occur) and the promised output dimensions; onedWriter_checkNumeric and the EAN-13/EAN-8/UPC-E encoders are "
      "proved panic-free over the compiled pattern tables. Negative MARGIN hints are now refused (two fixes). "
      "Not decided: the per-symbology encoders other than EAN-13/EAN-8/UPC-E (assumed through the encoder interface contract), Encoder_encode (QR encoder proper: assumed summary, marked trusted), "
      "the Data Matrix high-level encoder and its termination, Code 128/39/93/ITF/Codabar encoders.",
      "hint maps are unmodelled (lookups return arbitrary well-typed values: every hint value is covered); strconv/fmt stubs assumed non-panicking; allocation assumed to succeed; "
      "termination only where decreases clauses are given.")
claim("C06",
      "Panic-freedom and typed errors of the decoding steps that are under contract, for every input: BitSource.ReadBits/Available (value, position, exact failure conditions, 0 on failure); "
      "QR: NewBitMatrixParser accepts exactly square matrices of a QR dimension (a non-square matrix used to reach Flip out of range: fixed), ReadVersion reports only versions that fit the matrix, "
      "Version_decodeVersionInformation / doDecodeFormatInformation / Version_GetVersionForNumber, parseECIValue, decodeKanjiSegment, decodeNumericSegment (thorough tier: consumes exactly the payload of `count` digits and appends `count` ASCII digits), "
      "decodeByteSegment and Data Matrix decodeBase256Segment (partial: buffer sizes, indexes, bits consumed), decodeEdifactSegment, parseTwoBytes, both Decoder.correctErrors; "
      "1-D: RecordPattern, RecordPatternInReverse, the three best-match digit decoders, code39DecodeExtended (a trailing escape used to panic: fixed), Codabar toNarrowWidePattern; "
      "Aztec getEncodedData (partial: buffer capacity and unregistered ECI; both used to panic: fixed); GridSampler_checkAndNudgePoints (C19). "
      "Not decided: the remaining bit-stream parsers (QR alphanumeric/Hanzi/structured append, Data Matrix ASCII/C40/Text/X12 segments), the row decoders as a whole, the detectors, the binarisers, the Reed-Solomon decoder, the multi reader.",
      "external xerrors/fmt/x-text calls assumed non-panicking; partial checks (opt check=...) cover only the named obligation kinds; termination only where decreases clauses are given.")

claim("C18",
      "Frame proof of the mechanism the property names (no schedule exploration): every store, map update and append/copy destination in every function reachable (class-hierarchy call graph) "
      "from any exported Decode*/Encode*/DecodeRow method is an obligation; it is discharged when the written object cannot be reachable from a package-level variable "
      "(whole-module global-reachability analysis through fields, element kinds, locals, parameters and results). Package-level state is therefore written by package initialisers only, "
      "so calls on private reader/writer instances share only read-only tables: no data race on library state and results independent of other goroutines.",
      "decided by govc's frame/effect checker (not by SMT): flow-insensitive, field- and element-kind based; zero-length package-level slice literals carry no storage; "
      "external packages assumed not to write module state; nothing about actual schedules or -race runs is claimed.",
      technique="contract-style frame (modifies) obligations discharged by a whole-module effect/reachability checker over go/ssa")

claim("C17",
      "Luminance views: RGBLuminanceSource and PlanarYUVLuminanceSource GetRow are proved to return exactly row y of the naive 2-D pixel model of the view (error iff y is outside the view, "
      "the source data untouched, the result either the caller's buffer or a fresh one); Crop of RGB, PlanarYUV and GoImage sources is proved to fail exactly for a negative origin/size or a rectangle "
      "leaving the underlying data, and otherwise to return a well-formed view whose pixel (x,y) is the original pixel (x+left, y+top); GoImageLuminanceSource.RotateCounterClockwise is proved to "
      "return a well-formed Height x Width view with new(x',y') == old(Width-1-y', x'). HybridBinarizer.GetBlackMatrix is proved to use ceil(width/8) x ceil(height/8) blocks on the local path. "
      "Not decided yet: GetMatrix, the inverted view, NewLuminanceSourceFromImage / NewRGBLuminanceSource colour conversion, and bilevel exactness of the two binarisers (estimateBlackPoint, "
      "calculateBlackPoints, calculateThresholdForBlock, thresholdBlock, GetBlackRow).",
      "products of symbolic integers uninterpreted except for the proved index lemmas (viewRow, rotIdx, rowIdxInj); errors constructors from xerrors assumed non-panicking.")

for p in []:
    na(p, NOTYET)
na("C11", "The library has no Aztec writer: 'conforming symbol' would have to be a hand-written restatement of ISO/IEC 24778 (a model, not the code), and the image-to-bits path is a float-geometry detector; no contract on one call of the real code expresses the property. The Aztec decoder's totality is covered under C06.")
