#!/bin/bash
# usage: try_seed.sh <property> <variant> [check-property...]
# 1. confirms the seeded change in a scratch worktree (tests pass, demo fails with it, passes without),
# 2. applies it to /repo, runs the quick check(s), reverts it.
set -u
export GOFLAGS=-mod=mod GOPROXY=off GOSUMDB=off GOTOOLCHAIN=local
P=$1; V=$2; shift 2
if [ -n "$(git -C /repo status --porcelain)" ]; then echo "refusing: /repo has uncommitted changes (they would be lost by the revert)"; exit 2; fi
CHECKS=${@:-$P}
SRC=/tmp/seed/$P/out/$V
[ -d "$SRC" ] || SRC=/verif/seeded/$P-$V
PATCH=$SRC/patch.diff
DEMO=$SRC/demo_test.go
WT=/tmp/seedcheck-$P-$V
echo "== $P/$V: confirm in scratch worktree"
git -C /repo worktree remove --force $WT 2>/dev/null
git -C /repo worktree add -q --detach $WT HEAD || exit 2
place=$(head -1 $DEMO | sed -n 's|.*place in: *\([^ ]*\).*|\1|p'); place=${place:-.}
res_tests=skip; res_demo_with=?; res_demo_without=?
if git -C $WT apply --exclude='out/*' $PATCH 2>/tmp/apply.err; then
  (cd $WT && go test -vet=off -count=1 ./... >/tmp/seedtests.log 2>&1) && res_tests=pass || res_tests=FAIL
  cp $DEMO $WT/$place/zz_seed_demo_test.go
  (cd $WT/$place && go test -vet=off -count=1 -run 'C[0-9][0-9]|Demo|Seed' . >/tmp/seeddemo_with.log 2>&1) && res_demo_with=pass || res_demo_with=fail
  git -C $WT checkout -q -- . ; cp $DEMO $WT/$place/zz_seed_demo_test.go
  (cd $WT/$place && go test -vet=off -count=1 -run 'C[0-9][0-9]|Demo|Seed' . >/tmp/seeddemo_without.log 2>&1) && res_demo_without=pass || res_demo_without=fail
else
  echo "patch does not apply to current HEAD: $(cat /tmp/apply.err | head -3)"
fi
git -C /repo worktree remove --force $WT
echo "   existing tests with patch: $res_tests; demo with patch: $res_demo_with (want fail); demo without: $res_demo_without (want pass)"
echo "== apply to /repo and run checks: $CHECKS"
cd /verif
if git -C /repo apply --exclude='out/*' $PATCH; then
  for c in $CHECKS; do
    bin/govc check --property $c --tier quick > /tmp/seedcheck_$c.log 2>&1; rc=$?
    echo "   check $c exit=$rc"; grep -E "^VIOLATION|failed obligation" /tmp/seedcheck_$c.log | cut -c1-260 | head -6
  done
  git -C /repo checkout -- .
fi
git -C /repo status --short | head -3
git -C /verif checkout -- evidence 2>/dev/null
