#!/usr/bin/env python3
"""Generates /verif/MANIFEST.json from the table below (kept in one place so claims stay in sync)."""
import json, os, subprocess, sys

VERIF = os.path.dirname(os.path.dirname(os.path.abspath(__file__)))

# property id -> (level text, level note, technique, design ref)
CLAIMS = {}
NOT_APPLICABLE = {}

def claim(pid, text, note, technique="contract-based deductive verification: govc VCs over go/ssa of the real functions, discharged by z3/cvc5", ref=None):
    CLAIMS[pid] = (text, note, technique, ref or ("DESIGN.md section 7, " + pid))

def na(pid, reason):
    NOT_APPLICABLE[pid] = reason

exec(open(os.path.join(VERIF, "tools", "claims.py")).read())

def hook_commits():
    try:
        out = subprocess.check_output(["git", "-C", "/repo", "log", "--format=%h %s"], text=True)
    except Exception:
        return []
    return [l.split()[0] for l in out.splitlines() if l.split(" ", 1)[1].startswith("verif:")]

manifest = {
    "version": 1,
    "setup_cmd": "./setup.sh",
    "hooks": {
        "guard": "verif",
        "enable": "govc loads /repo with -tags=verif; the tag only adds comment-only zz_contracts_verif.go files (contracts), no executable code",
        "baseline_off_cmd": "cd /repo && GOFLAGS=-mod=mod GOPROXY=off GOSUMDB=off go test -json -vet=off -count=1 -timeout 25m ./...",
        "source_commits": hook_commits(),
        "add_only": True,
    },
    "engines": [{
        "name": "govc",
        "path": "/verif/engine",
        "serves_properties": sorted(CLAIMS),
        "kind_free_text": "contract-based deductive verifier written for this task: contracts are //@ comments in /repo/**/zz_contracts_verif.go; verification conditions are generated from the go/ssa (naive form) of the real functions in /repo's working tree and discharged by z3 5.1 / z3 4.8 / cvc5 1.0; counterexamples are replayed on the real code with go test -overlay",
    }],
    "checks": [],
    "not_applicable": [{"property_id": p, "reason": r} for p, r in sorted(NOT_APPLICABLE.items())],
    "notes": "Every check rebuilds its obligations from /repo's current working tree. See DESIGN.md for what each property's contracts decide and what stays unverified.",
}
for pid in sorted(CLAIMS):
    text, note, tech, ref = CLAIMS[pid]
    manifest["checks"].append({
        "property_id": pid,
        "quick_cmd": f"bin/govc check --property {pid} --tier quick",
        "thorough_cmd": f"bin/govc check --property {pid} --tier thorough",
        "evidence_file": f"/verif/evidence/{pid}.json",
        "replay_cmd_template": "bin/govc replay {path}",
        "engine": "govc",
        "level_claimed": {"category": "proof", "text": text, "design_ref": ref},
        "level_note": note,
        "technique": tech,
    })
json.dump(manifest, open(os.path.join(VERIF, "MANIFEST.json"), "w"), indent=1)
print("claimed:", sorted(CLAIMS), "not applicable:", sorted(NOT_APPLICABLE))
