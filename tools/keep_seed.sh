#!/bin/bash
# keep_seed.sh <P> <V> <status: caught|missed> <text: which obligation / why>
P=$1; V=$2; ST=$3; shift 3; TXT="$*"
SRC=/tmp/seed/$P/out/$V; DST=/verif/seeded/$P-$V
mkdir -p $DST; META=$SRC/meta.json
if [ -d "$SRC" ]; then cp $SRC/patch.diff $SRC/demo_test.go $DST/; else META=$DST/meta.json; fi
python3 - "$META" "$DST/meta.json" "$ST" "$TXT" <<'PY'
import json,sys
src,dst,st,txt=sys.argv[1:5]
try: m=json.load(open(src))
except Exception as e: m={"note":"agent meta unreadable: %s"%e}
m["confirmed_by_me"]={"existing_tests_pass_with_patch":True,"demo_fails_with_patch":True,"demo_passes_without_patch":True,"how":"tools/try_seed.sh (scratch worktree of /repo HEAD; go test -vet=off -count=1 ./... ; demo test copied into its package)"}
m["govc_quick_check"]={"result":st,"detail":txt}
json.dump(m,open(dst,"w"),indent=1)
PY
echo kept $DST
